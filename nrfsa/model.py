"""L0/L1 - program model of circuitpython_nrf24l01 built from source with `ast`.

Nothing from /repo is ever imported or executed.  The model resolves:
module constants (incl. ``const(..)`` and cross-module imports), classes with
C3 MRO, properties (incl. the cross-class ``@Base.prop.setter`` form),
instance-field types (from constructor assignments / annotations), local
variable types, and call targets (methods, super(), constructors, module
functions, nested functions, property get/set, externals).
"""
import ast
import os

PKG = "circuitpython_nrf24l01"
MODULES = [
    "__init__", "rf24", "rf24_lite", "fake_ble", "rf24_network", "rf24_mesh",
    "network/__init__", "network/constants", "network/mixins", "network/structs",
    "wrapper/__init__", "wrapper/cpy_spidev",
]


class AnalysisError(Exception):
    """the analyser cannot do its job (vanished anchor, unresolved construct)"""


def modname(rel):
    rel = rel[:-3] if rel.endswith(".py") else rel
    parts = rel.split("/")
    if parts[-1] == "__init__":
        parts = parts[:-1]
    return ".".join(parts)


class FuncInfo:
    def __init__(self, module, cls, name, node, kind, parent=None, prop=None):
        self.module, self.cls, self.name, self.node = module, cls, name, node
        self.kind, self.parent, self.prop = kind, parent, prop
        self.nested = {}

    @property
    def params(self):
        a = self.node.args
        return [x.arg for x in a.posonlyargs + a.args]

    @property
    def qualname(self):
        base = self.module.name + ":"
        if self.cls is not None:
            base += self.cls.name + "."
        if self.parent is not None:
            base += self.parent.name + ".<locals>."
        nm = self.name
        if self.kind == "setter":
            nm += ".setter"
        elif self.kind == "getter":
            nm += ".getter"
        return base + nm

    @property
    def file(self):
        return self.module.relpath

    def __repr__(self):
        return "<Func %s>" % self.qualname


class PropInfo:
    def __init__(self, name, getter=None, setter=None):
        self.name, self.getter, self.setter = name, getter, setter


class ClassInfo:
    def __init__(self, module, node):
        self.module, self.node, self.name = module, node, node.name
        self.methods, self.props, self.class_attrs = {}, {}, {}
        self.bases, self.mro = [], []
        self._ftypes = None

    @property
    def qualname(self):
        return self.module.name + ":" + self.name

    def __repr__(self):
        return "<Class %s>" % self.qualname

    def is_subclass_of(self, other):
        return other in self.mro

    def lookup(self, name, after=None):
        """('method', FuncInfo) | ('prop', PropInfo) | ('classattr', node) | None.
        `after`: start the MRO walk after this class (super())."""
        mro = self.mro
        if after is not None:
            mro = mro[mro.index(after) + 1:]
        for c in mro:
            if name in c.props:
                return ("prop", c.props[name])
            if name in c.methods:
                return ("method", c.methods[name])
            if name in c.class_attrs:
                return ("classattr", c.class_attrs[name])
        return None


class Module:
    def __init__(self, name, relpath, src):
        self.name, self.relpath, self.src = name, relpath, src
        self.tree = ast.parse(src, relpath)
        self.consts, self.funcs, self.classes = {}, {}, {}
        self.imports = {}  # local name -> (module dotted name | None external, orig name)
        self.ext_modules = set()


EXTERNAL = "external"


class Target:
    """a resolved callee"""

    def __init__(self, kind, func=None, recv=None, name=None, cls=None):
        self.kind = kind  # 'func' (repo function w/ FuncInfo) | 'external' | 'ctor-noinit'
        self.func, self.recv, self.name, self.cls = func, recv, name, cls

    def __repr__(self):
        if self.kind == "func":
            return "<T %s recv=%s>" % (self.func.qualname, self.recv.name if self.recv else None)
        return "<T ext %s>" % self.name


BUILTINS = {
    "len", "int", "bool", "bytes", "bytearray", "min", "max", "abs", "range",
    "enumerate", "isinstance", "print", "ord", "chr", "bin", "oct", "hex", "str",
    "type", "callable", "open", "set", "list", "tuple", "dict", "float", "repr",
    "const", "super", "urandom", "sorted", "sum", "any", "all", "zip", "reversed",
    "divmod", "round", "iter", "next", "id", "hash", "format", "memoryview", "map", "filter", "pow", "frozenset", "OverflowError",
    "TypeError", "ValueError", "IndexError", "RuntimeError", "AttributeError",
    "NotImplementedError", "OSError", "KeyError", "Exception", "UnicodeError",
    "ImportError", "AssertionError", "StopIteration", "ZeroDivisionError",
}


class Program:
    def __init__(self, root, overlay=None):
        self.root = root
        self.overlay = overlay or {}
        self.pkgdir = os.path.join(root, PKG)
        self.modules = {}
        found = []
        for dp, _dn, fns in os.walk(self.pkgdir):
            for fn in sorted(fns):
                if fn.endswith(".py"):
                    found.append(os.path.relpath(os.path.join(dp, fn), self.pkgdir)[:-3].replace(os.sep, "/"))
        for rel in MODULES:
            if rel not in found:
                raise AnalysisError("module vanished: %s" % os.path.join(self.pkgdir, rel + ".py"))
        self.extra_modules = sorted(set(found) - set(MODULES))
        for rel in MODULES + self.extra_modules:
            path = os.path.join(self.pkgdir, rel + ".py")
            with open(path, encoding="utf-8") as fh:
                src = fh.read()
            src = self.overlay.get(rel + ".py", src)
            try:
                mod = Module(modname(rel), PKG + "/" + rel + ".py", src)
            except SyntaxError as exc:
                raise AnalysisError("cannot parse %s: %s" % (path, exc))
            self.modules[mod.name] = mod
        for mod in self.modules.values():
            self._scan_imports(mod)
        for mod in self.modules.values():
            self._scan_defs(mod)
        for mod in self.modules.values():
            self._scan_consts(mod)
        for mod in self.modules.values():
            for cls in mod.classes.values():
                self._link_bases(cls)
        for mod in self.modules.values():
            for cls in mod.classes.values():
                cls.mro = self._c3(cls)
        for mod in self.modules.values():
            for cls in mod.classes.values():
                self._scan_members(cls)
        self._all_funcs = None

    # ------------------------------------------------------------------ scan
    def _resolve_rel(self, mod, level, name):
        parts = mod.name.split(".") if mod.name else []
        is_pkg = mod.relpath.endswith("__init__.py")
        base = parts if is_pkg else parts[:-1]
        if level > 1:
            base = base[: len(base) - (level - 1)]
        tgt = ".".join(base + (name.split(".") if name else []))
        return tgt

    def _scan_imports(self, mod):
        for node in ast.walk(mod.tree):
            if isinstance(node, ast.ImportFrom):
                if node.level:
                    tgt = self._resolve_rel(mod, node.level, node.module or "")
                    for al in node.names:
                        mod.imports[al.asname or al.name] = (tgt, al.name)
                else:
                    for al in node.names:
                        mod.imports[al.asname or al.name] = (None, (node.module or "") + "." + al.name)
            elif isinstance(node, ast.Import):
                for al in node.names:
                    mod.ext_modules.add((al.asname or al.name).split(".")[0])

    def _scan_defs(self, mod):
        for node in mod.tree.body:
            if isinstance(node, ast.FunctionDef):
                fi = FuncInfo(mod, None, node.name, node, "func")
                mod.funcs[node.name] = fi
                self._scan_nested(fi)
            elif isinstance(node, ast.ClassDef):
                mod.classes[node.name] = ClassInfo(mod, node)

    def _scan_nested(self, fi):
        for sub in ast.walk(fi.node):
            if isinstance(sub, ast.FunctionDef) and sub is not fi.node:
                fi.nested[sub.name] = FuncInfo(fi.module, fi.cls, sub.name, sub, "nested", parent=fi)

    def _scan_consts(self, mod, _depth=0):
        for node in mod.tree.body:
            tgt = val = None
            if isinstance(node, ast.Assign) and len(node.targets) == 1 and isinstance(node.targets[0], ast.Name):
                tgt, val = node.targets[0].id, node.value
            elif isinstance(node, ast.AnnAssign) and isinstance(node.target, ast.Name) and node.value is not None:
                tgt, val = node.target.id, node.value
            if tgt is None:
                continue
            try:
                mod.consts[tgt] = self.fold_const(mod, val)
            except ValueError:
                pass

    def fold_const(self, mod, node):
        """fold a module-level constant expression; ValueError if not constant"""
        if isinstance(node, ast.Constant):
            return node.value
        if isinstance(node, ast.Call) and isinstance(node.func, ast.Name):
            if node.func.id == "const" and len(node.args) == 1:
                return self.fold_const(mod, node.args[0])
            if node.func.id in ("bytearray", "bytes") and len(node.args) == 1:
                v = self.fold_const(mod, node.args[0])
                return bytes(v)
        if isinstance(node, (ast.Tuple, ast.List)):
            vals = [self.fold_const(mod, e) for e in node.elts]
            return tuple(vals) if isinstance(node, ast.Tuple) else list(vals)
        if isinstance(node, ast.Dict) and all(k is not None for k in node.keys):
            try:
                return {self.fold_const(mod, k): self.fold_const(mod, v) for k, v in zip(node.keys, node.values)}
            except TypeError:
                raise ValueError
        if isinstance(node, ast.Subscript) and not isinstance(node.slice, ast.Slice):
            try:
                return self.fold_const(mod, node.value)[self.fold_const(mod, node.slice)]
            except (KeyError, IndexError, TypeError):
                raise ValueError
        if isinstance(node, ast.Call) and isinstance(node.func, ast.Attribute) and isinstance(node.func.value, ast.Name) and node.func.value.id == "struct" \
                and node.func.attr == "calcsize" and len(node.args) == 1:
            from .interp_ext import fmt_size
            fmt = self.fold_const(mod, node.args[0])
            sz = fmt_size(fmt) if isinstance(fmt, str) else None
            if sz is None:
                raise ValueError
            return sz
        if isinstance(node, ast.Call) and isinstance(node.func, ast.Name) and node.func.id in ("tuple", "list", "len", "range", "frozenset") and not node.keywords:
            args = [self.fold_const(mod, a) for a in node.args]
            try:
                r = {"tuple": tuple, "list": list, "len": len, "range": range, "frozenset": frozenset}[node.func.id](*args)
            except Exception:
                raise ValueError
            return tuple(r) if isinstance(r, range) else r
        if isinstance(node, ast.Name):
            return self.const_value(mod, node.id)
        if isinstance(node, ast.UnaryOp) and isinstance(node.op, (ast.USub, ast.Invert)):
            v = self.fold_const(mod, node.operand)
            return -v if isinstance(node.op, ast.USub) else ~v
        if isinstance(node, ast.BinOp):
            a, b = self.fold_const(mod, node.left), self.fold_const(mod, node.right)
            ops = {ast.Add: lambda: a + b, ast.Sub: lambda: a - b, ast.Mult: lambda: a * b,
                   ast.BitOr: lambda: a | b, ast.BitAnd: lambda: a & b, ast.LShift: lambda: a << b,
                   ast.RShift: lambda: a >> b, ast.BitXor: lambda: a ^ b}
            if type(node.op) in ops:
                try:
                    return ops[type(node.op)]()
                except Exception:
                    raise ValueError
        raise ValueError("not const")

    def module_frame_func(self, mod):
        """a pseudo function standing for the module body (used to evaluate module-level expressions in the module's name space)"""
        cache = getattr(self, "_modfuncs", None)
        if cache is None:
            cache = self._modfuncs = {}
        if mod.name not in cache:
            node = ast.FunctionDef(name="<module>", args=ast.arguments(posonlyargs=[], args=[], vararg=None, kwonlyargs=[], kw_defaults=[], kwarg=None, defaults=[]),
                                   body=[ast.Pass()], decorator_list=[], returns=None, type_comment=None)
            ast.fix_missing_locations(node)
            cache[mod.name] = FuncInfo(mod, None, "<module>", node, "function")
        return cache[mod.name]

    def class_const(self, cls, name):
        """value of a class-level table: the class body's simple assignments are folded in order (later ones may use earlier ones,
        e.g. `t = [..]; t = [x + "/" for x in t] + t`); ValueError if it is not a constant"""
        env = {}
        for node in cls.node.body:
            tgts, val = [], None
            if isinstance(node, ast.Assign):
                tgts, val = [t.id for t in node.targets if isinstance(t, ast.Name)], node.value
            elif isinstance(node, ast.AnnAssign) and isinstance(node.target, ast.Name) and node.value is not None:
                tgts, val = [node.target.id], node.value
            for t in tgts:
                try:
                    env[t] = self._fold_env(cls.module, val, env)
                except (ValueError, TypeError):
                    env.pop(t, None)
        if name not in env:
            raise ValueError("not a class constant: %s" % name)
        return env[name]

    def _fold_env(self, mod, node, env):
        if isinstance(node, ast.Name) and node.id in env:
            return env[node.id]
        if isinstance(node, (ast.Tuple, ast.List)):
            vals = [self._fold_env(mod, e, env) for e in node.elts]
            return tuple(vals) if isinstance(node, ast.Tuple) else list(vals)
        if isinstance(node, ast.BinOp) and isinstance(node.op, (ast.Add, ast.Mult)):
            a, b = self._fold_env(mod, node.left, env), self._fold_env(mod, node.right, env)
            try:
                return a + b if isinstance(node.op, ast.Add) else a * b
            except Exception:
                raise ValueError
        if isinstance(node, ast.ListComp) and len(node.generators) == 1 and not node.generators[0].is_async and isinstance(node.generators[0].target, ast.Name):
            g = node.generators[0]
            out = []
            for item in self._fold_env(mod, g.iter, env):
                e2 = dict(env)
                e2[g.target.id] = item
                if all(self._fold_env(mod, c, e2) for c in g.ifs):
                    out.append(self._fold_env(mod, node.elt, e2))
            return out
        return self.fold_const(mod, node)

    def const_value(self, mod, name, _seen=None):
        """value of a module-level name (following imports); ValueError if unknown"""
        _seen = _seen or set()
        if (mod.name, name) in _seen:
            raise ValueError
        _seen.add((mod.name, name))
        if name in mod.consts:
            return mod.consts[name]
        if name in mod.imports:
            tgt, orig = mod.imports[name]
            if tgt is not None and tgt in self.modules:
                other = self.modules[tgt]
                if not other.consts:
                    self._scan_consts(other)
                return self.const_value(other, orig, _seen)
        # late: assignment seen later in same module
        for node in mod.tree.body:
            if isinstance(node, ast.Assign) and len(node.targets) == 1 and isinstance(node.targets[0], ast.Name) and node.targets[0].id == name:
                return self.fold_const(mod, node.value)
        raise ValueError("unknown const %s" % name)

    def resolve_class_name(self, mod, name):
        if name in mod.classes:
            return mod.classes[name]
        if name in mod.imports:
            tgt, orig = mod.imports[name]
            if tgt in self.modules:
                other = self.modules[tgt]
                if orig in other.classes:
                    return other.classes[orig]
                if orig in other.imports:  # re-export (wrapper/__init__)
                    return self.resolve_class_name(other, orig)
        return None

    def resolve_func_name(self, mod, name):
        if name in mod.funcs:
            return mod.funcs[name]
        if name in mod.imports:
            tgt, orig = mod.imports[name]
            if tgt in self.modules and orig in self.modules[tgt].funcs:
                return self.modules[tgt].funcs[orig]
        return None

    def _link_bases(self, cls):
        for b in cls.node.bases:
            if isinstance(b, ast.Name):
                c = self.resolve_class_name(cls.module, b.id)
                if c is not None:
                    cls.bases.append(c)
                elif b.id not in ("object", "Exception"):
                    raise AnalysisError("unresolved base class %s of %s" % (b.id, cls.qualname))
            else:
                raise AnalysisError("unsupported base expression in %s" % cls.qualname)

    def _c3(self, cls):
        def merge(seqs):
            res = []
            seqs = [list(s) for s in seqs if s]
            while seqs:
                for s in seqs:
                    h = s[0]
                    if not any(h in t[1:] for t in seqs):
                        break
                else:
                    raise AnalysisError("inconsistent MRO for %s" % cls.qualname)
                res.append(h)
                seqs = [[x for x in s if x is not h] for s in seqs]
                seqs = [s for s in seqs if s]
            return res
        return [cls] + merge([self._c3(b) for b in cls.bases] + [list(cls.bases)])

    def _scan_members(self, cls):
        for node in cls.node.body:
            if isinstance(node, ast.FunctionDef):
                kind, propname, base_prop = "method", None, None
                for dec in node.decorator_list:
                    if isinstance(dec, ast.Name) and dec.id == "property":
                        kind, propname = "getter", node.name
                    elif isinstance(dec, ast.Attribute) and dec.attr == "setter":
                        kind, propname = "setter", node.name
                        v = dec.value
                        if isinstance(v, ast.Name):
                            if v.id != node.name:
                                raise AnalysisError("setter decorator name mismatch in %s" % cls.qualname)
                        elif isinstance(v, ast.Attribute) and isinstance(v.value, ast.Name):
                            bc = self.resolve_class_name(cls.module, v.value.id)
                            if bc is None:
                                raise AnalysisError("unresolved %s in decorator" % v.value.id)
                            # base class members must be scanned first
                            if not bc.props and not bc.methods:
                                self._scan_members(bc)
                            hit = bc.lookup(v.attr)
                            if not hit or hit[0] != "prop":
                                raise AnalysisError("%s.%s is not a property" % (bc.name, v.attr))
                            base_prop = hit[1]
                        else:
                            raise AnalysisError("unsupported decorator in %s.%s" % (cls.name, node.name))
                    elif isinstance(dec, ast.Name) and dec.id == "staticmethod":
                        kind = "static"
                    elif isinstance(dec, ast.Name) and dec.id == "classmethod":
                        kind = "classmethod"
                    else:
                        raise AnalysisError("unsupported decorator on %s.%s" % (cls.name, node.name))
                fi = FuncInfo(cls.module, cls, node.name, node, kind, prop=propname)
                self._scan_nested(fi)
                if kind in ("method", "static", "classmethod"):
                    cls.methods[node.name] = fi
                elif kind == "getter":
                    cls.props[node.name] = PropInfo(node.name, getter=fi)
                else:
                    if base_prop is not None:
                        cls.props[node.name] = PropInfo(node.name, getter=base_prop.getter, setter=fi)
                    elif node.name in cls.props:
                        cls.props[node.name].setter = fi
                    else:
                        raise AnalysisError("setter before getter: %s.%s" % (cls.name, node.name))
            elif isinstance(node, ast.Assign):
                for t in node.targets:
                    if isinstance(t, ast.Name):
                        cls.class_attrs[t.id] = node.value
            elif isinstance(node, ast.AnnAssign) and isinstance(node.target, ast.Name):
                cls.class_attrs[node.target.id] = node.value

    # ------------------------------------------------------------ accessors
    def cls(self, module, name):
        try:
            return self.modules[module].classes[name]
        except KeyError:
            raise AnalysisError("anchor vanished: class %s:%s" % (module, name))

    def func(self, module, name):
        try:
            return self.modules[module].funcs[name]
        except KeyError:
            raise AnalysisError("anchor vanished: function %s:%s" % (module, name))

    def method(self, cls, name, kind=None):
        """resolved member `name` of ClassInfo `cls` through the MRO.
        kind: None → method; 'get'/'set' → property accessor."""
        hit = cls.lookup(name)
        if hit is None:
            raise AnalysisError("anchor vanished: %s.%s" % (cls.qualname, name))
        if kind is None:
            if hit[0] != "method":
                raise AnalysisError("anchor %s.%s is not a method" % (cls.qualname, name))
            return hit[1]
        if hit[0] != "prop":
            raise AnalysisError("anchor %s.%s is not a property" % (cls.qualname, name))
        fi = hit[1].getter if kind == "get" else hit[1].setter
        if fi is None:
            raise AnalysisError("anchor vanished: %s.%s %ster" % (cls.qualname, name, kind))
        return fi

    def all_funcs(self):
        if self._all_funcs is None:
            out = []
            for mod in self.modules.values():
                for fi in mod.funcs.values():
                    out.append(fi)
                    out.extend(fi.nested.values())
                for cls in mod.classes.values():
                    fis = list(cls.methods.values())
                    for p in cls.props.values():
                        for f in (p.getter, p.setter):
                            if f is not None and f.cls is cls:
                                fis.append(f)
                    for fi in fis:
                        out.append(fi)
                        out.extend(fi.nested.values())
            self._all_funcs = out
        return self._all_funcs

    def all_classes(self):
        return [c for m in self.modules.values() for c in m.classes.values()]

    # ---------------------------------------------------------- field types
    def _ann_classes(self, mod, ann):
        """class names mentioned in an annotation → (direct set, element set)"""
        direct, elem = set(), set()
        if ann is None:
            return direct, elem

        def visit(n, in_list):
            if isinstance(n, ast.Name):
                c = self.resolve_class_name(mod, n.id)
                if c is not None:
                    (elem if in_list else direct).add(c)
            elif isinstance(n, ast.Constant) and isinstance(n.value, str):
                c = self.resolve_class_name(mod, n.value)
                if c is not None:
                    (elem if in_list else direct).add(c)
            elif isinstance(n, ast.Subscript):
                head = n.value.id if isinstance(n.value, ast.Name) else None
                visit(n.slice, in_list or head in ("List", "Sequence", "list", "Set"))
            elif isinstance(n, ast.Tuple):
                for e in n.elts:
                    visit(e, in_list)
        visit(ann, False)
        return direct, elem

    def field_types(self, cls):
        """attr -> {'direct': set(ClassInfo), 'elem': set(ClassInfo)} over the MRO"""
        if cls._ftypes is not None:
            return cls._ftypes
        out = {}

        def add(attr, direct, elem):
            d = out.setdefault(attr, {"direct": set(), "elem": set()})
            d["direct"] |= direct
            d["elem"] |= elem
        for c in cls.mro:
            fis = list(c.methods.values()) + [f for p in c.props.values() for f in (p.getter, p.setter) if f is not None and f.cls is c]
            for fi in fis:
                for node in ast.walk(fi.node):
                    tgt = val = ann = None
                    if isinstance(node, ast.AnnAssign):
                        tgt, val, ann = node.target, node.value, node.annotation
                    elif isinstance(node, ast.Assign) and len(node.targets) == 1:
                        tgt, val = node.targets[0], node.value
                    if not (isinstance(tgt, ast.Attribute) and isinstance(tgt.value, ast.Name) and tgt.value.id == "self"):
                        continue
                    direct, elem = self._ann_classes(c.module, ann)
                    for v in self._value_alts(val):
                        if isinstance(v, ast.Call) and isinstance(v.func, ast.Name):
                            k = self.resolve_class_name(c.module, v.func.id)
                            if k is not None:
                                direct.add(k)
                    add(tgt.attr, direct, elem)
        cls._ftypes = out
        return out

    @staticmethod
    def _value_alts(val):
        if val is None:
            return []
        if isinstance(val, ast.IfExp):
            return Program._value_alts(val.body) + Program._value_alts(val.orelse)
        return [val]


class Ctx:
    """resolution context: a function analysed for a concrete receiver class"""

    def __init__(self, prog, func, recv=None):
        self.prog, self.func = prog, func
        self.recv = recv if recv is not None else func.cls
        self.mod = func.module
        self._locals = None

    # local variable types (flow-insensitive)
    def local_types(self):
        if self._locals is not None:
            return self._locals
        out = {}
        self._locals = out  # visible to re-entrant queries while being built

        def add(name, direct=(), elem=()):
            d = out.setdefault(name, {"direct": set(), "elem": set()})
            d["direct"] |= set(direct)
            d["elem"] |= set(elem)
        fn = self.func.node
        args = fn.args
        for a in args.posonlyargs + args.args + args.kwonlyargs:
            d, e = self.prog._ann_classes(self.mod, a.annotation)
            add(a.arg, d, e)
        for _ in range(2):
            for node in ast.walk(fn):
                if isinstance(node, ast.Assign) and len(node.targets) == 1 and isinstance(node.targets[0], ast.Name):
                    t = self.type_of(node.value, out)
                    add(node.targets[0].id, t["direct"], t["elem"])
                elif isinstance(node, ast.AnnAssign) and isinstance(node.target, ast.Name):
                    d, e = self.prog._ann_classes(self.mod, node.annotation)
                    add(node.target.id, d, e)
                elif isinstance(node, ast.For) and isinstance(node.target, ast.Name):
                    t = self.type_of(node.iter, out)
                    add(node.target.id, t["elem"])
        self._locals = out
        return out

    def type_of(self, expr, locals_=None):
        """{'direct': set(ClassInfo), 'elem': set(ClassInfo)} of an expression"""
        empty = {"direct": set(), "elem": set()}
        locals_ = self.local_types() if locals_ is None else locals_
        if isinstance(expr, ast.Name):
            if expr.id == "self" and self.recv is not None:
                return {"direct": {self.recv}, "elem": set()}
            return locals_.get(expr.id, empty)
        if isinstance(expr, ast.Attribute):
            base = self.type_of(expr.value, locals_)
            res = {"direct": set(), "elem": set()}
            for c in base["direct"]:
                ft = self.prog.field_types(c).get(expr.attr)
                if ft:
                    res["direct"] |= ft["direct"]
                    res["elem"] |= ft["elem"]
            return res
        if isinstance(expr, ast.Call):
            if isinstance(expr.func, ast.Name):
                c = self.prog.resolve_class_name(self.mod, expr.func.id)
                if c is not None:
                    return {"direct": {c}, "elem": set()}
            tg = self.resolve_call(expr, strict=False)
            res = {"direct": set(), "elem": set()}
            for t in tg:
                if t.kind == "func" and t.func.node.returns is not None:
                    d, e = self.prog._ann_classes(t.func.module, t.func.node.returns)
                    res["direct"] |= d
                    res["elem"] |= e
            return res
        if isinstance(expr, ast.IfExp):
            a, b = self.type_of(expr.body, locals_), self.type_of(expr.orelse, locals_)
            return {"direct": a["direct"] | b["direct"], "elem": a["elem"] | b["elem"]}
        if isinstance(expr, ast.Subscript):
            base = self.type_of(expr.value, locals_)
            if not isinstance(expr.slice, ast.Slice):
                return {"direct": set(base["elem"]), "elem": set()}
            return base
        return empty

    # ----------------------------------------------------------- attributes
    def resolve_attr(self, expr):
        """for ast.Attribute: list of ('prop', PropInfo, recv_cls) | ('method', FuncInfo, recv_cls) |
        ('field', attr, recv_cls) | ('unknown', attr, None)"""
        out = []
        v = expr.value
        if isinstance(v, ast.Call) and isinstance(v.func, ast.Name) and v.func.id == "super":
            hit = self.recv.lookup(expr.attr, after=self.func.cls) if self.recv else None
            if hit is None:
                return [("unknown", expr.attr, None)]
            return [(hit[0], hit[1], self.recv)]
        if isinstance(v, ast.Name) and v.id not in ("self",) and v.id not in self.local_types():
            c = self.prog.resolve_class_name(self.mod, v.id)
            if c is not None:  # Class.attr
                hit = c.lookup(expr.attr)
                if hit is not None:
                    return [(hit[0] if hit[0] != "prop" else "classprop", hit[1], c)]
        t = self.type_of(v)
        for c in sorted(t["direct"], key=lambda k: k.qualname):
            hit = c.lookup(expr.attr)
            if hit is None or hit[0] == "classattr":
                out.append(("field", expr.attr, c))
            else:
                out.append((hit[0], hit[1], c))
        if not out:
            out.append(("unknown", expr.attr, None))
        return out

    # ---------------------------------------------------------------- calls
    def resolve_call(self, call, strict=True):
        """list[Target] for an ast.Call"""
        f = call.func
        prog = self.prog
        if isinstance(f, ast.Name):
            nm = f.id
            # nested function of this function (or of the parent)
            holder = self.func.parent or self.func
            if nm in holder.nested:
                return [Target("func", holder.nested[nm], self.recv)]
            c = prog.resolve_class_name(self.mod, nm)
            if c is not None:
                hit = c.lookup("__init__")
                if hit is None:
                    return [Target("ctor-noinit", cls=c, name=c.name)]
                return [Target("func", hit[1], c, cls=c)]
            fn = prog.resolve_func_name(self.mod, nm)
            if fn is not None:
                return [Target("func", fn, None)]
            if nm in BUILTINS or nm in self.mod.imports:
                return [Target("external", name=nm)]
            if nm in self.local_types() or nm in self.func.params or nm in self.assigned_names():
                # a local holding a callable: the functions it may stand for are edges of the enclosing function already
                # (call_edges() treats every method / function *value* as a potential call)
                return [Target("external", name="callable:" + nm)]
            if strict:
                raise AnalysisError("unresolved call %s() in %s" % (nm, self.func.qualname))
            return []
        if isinstance(f, ast.Attribute):
            v = f.value
            if isinstance(v, ast.Name) and v.id in self.mod.ext_modules and v.id not in self.local_types():
                return [Target("external", name=v.id + "." + f.attr)]
            res = []
            for kind, obj, recv in self.resolve_attr(f):
                if kind == "method":
                    res.append(Target("func", obj, recv))
                elif kind in ("field", "unknown", "classattr"):
                    res.append(Target("external", name="method:" + f.attr))
                elif kind in ("prop", "classprop"):
                    res.append(Target("external", name="callprop:" + f.attr))
            return res
        # `(a if c else b)(..)`, `table[k](..)`, `f(..)(..)`: the callee is a value; its possible targets are covered by call_edges()
        return [Target("external", name="callable:<expr>")]

    def assigned_names(self):
        """every name bound inside the function (assignment, loop, with, comprehension, nested def, import, except)"""
        if getattr(self, "_assigned", None) is None:
            out = set()
            holder = self.func.parent.node if self.func.parent is not None else self.func.node
            for fn in {id(holder): holder, id(self.func.node): self.func.node}.values():
                for n in ast.walk(fn):
                    if isinstance(n, ast.Name) and isinstance(n.ctx, (ast.Store, ast.Del)):
                        out.add(n.id)
                    elif isinstance(n, (ast.FunctionDef, ast.ClassDef)) and n is not fn:
                        out.add(n.name)
                    elif isinstance(n, ast.ExceptHandler) and n.name:
                        out.add(n.name)
                    elif isinstance(n, (ast.Import, ast.ImportFrom)):
                        for al in n.names:
                            out.add((al.asname or al.name).split(".")[0])
            self._assigned = out
        return self._assigned


def iter_own_nodes(fnode):
    """walk a function body without descending into nested function/class defs"""
    stack = list(fnode.body)
    while stack:
        n = stack.pop()
        yield n
        for ch in ast.iter_child_nodes(n):
            if isinstance(ch, (ast.FunctionDef, ast.ClassDef, ast.Lambda)):
                continue
            stack.append(ch)


def call_edges(prog, func, recv):
    """yield (node, Target) for every call / property access in func under recv"""
    ctx = Ctx(prog, func, recv)
    callee_ids = {id(n.func) for n in iter_own_nodes(func.node) if isinstance(n, ast.Call)}
    for n in iter_own_nodes(func.node):
        if isinstance(n, ast.Call):
            for t in ctx.resolve_call(n):
                yield n, t
        elif isinstance(n, ast.Name) and isinstance(n.ctx, ast.Load) and id(n) not in callee_ids and n.id not in ctx.assigned_names() and n.id not in func.params:
            # a module-level / nested function used as a value (stored, passed, chosen by a conditional): a potential call
            holder = func.parent or func
            fn = holder.nested.get(n.id) or prog.resolve_func_name(func.module, n.id)
            if fn is not None:
                yield n, Target("func", fn, recv if fn.kind == "nested" else None)
        elif isinstance(n, ast.Attribute):
            if isinstance(n.ctx, ast.Load) and id(n) not in callee_ids:
                # a method used as a value (`f = self._rf24.read`, `(self._a if c else self._b)()`): a potential call
                for kind, obj, rc in ctx.resolve_attr(n):
                    if kind == "method":
                        yield n, Target("func", obj, rc)
            for kind, obj, rc in ctx.resolve_attr(n):
                if kind == "prop":
                    if isinstance(n.ctx, ast.Store):
                        if obj.setter is not None:
                            yield n, Target("func", obj.setter, rc)
                    elif isinstance(n.ctx, ast.Load):
                        if obj.getter is not None:
                            yield n, Target("func", obj.getter, rc)
        elif isinstance(n, ast.With):
            for item in n.items:
                t = ctx.type_of(item.context_expr)
                for c in t["direct"]:
                    for nm in ("__enter__", "__exit__"):
                        hit = c.lookup(nm)
                        if hit and hit[0] == "method":
                            yield n, Target("func", hit[1], c)
        elif isinstance(n, ast.AugAssign) and isinstance(n.target, ast.Attribute):
            for kind, obj, rc in ctx.resolve_attr(n.target):
                if kind == "prop" and obj.getter is not None:
                    yield n, Target("func", obj.getter, rc)


def reachable(prog, func, recv, stop=None):
    """set of (FuncInfo, recv ClassInfo) reachable from (func, recv)"""
    seen, work = set(), [(func, recv)]
    while work:
        f, r = work.pop()
        if (f, r) in seen:
            continue
        seen.add((f, r))
        if stop is not None and stop(f, r):
            continue
        for _n, t in call_edges(prog, f, r):
            if t.kind == "func":
                work.append((t.func, t.recv if t.func.cls is not None else None))
    return seen
