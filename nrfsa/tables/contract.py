"""Documented behaviour of the RF24 configuration API as a reference model over
*symbolic* register contents.  Written from docs/core_api/*.rst and the
nRF24L01+ datasheet, not from the driver source.

A scenario is (label, args, expectation).  The expectation is a function
old -> Outcome where old(r) gives the 8 bit-terms register r holds on entry and
Outcome is {'raise': 'ValueError'} or {'regs': {r: [8 terms]}, 'ret': value}.
Registers not listed must keep their entry value.  Bit terms are those of
nrfsa.absval (0, 1, ('s', src, neg), ('m', deps))."""
from ..absval import t_or, t_not, t_mix

X = "any"  # wildcard for a return value that is not part of the contract


def const_bits(n):
    return [(n >> i) & 1 for i in range(8)]


def put(old_bits, mask, value):
    """old with the bits in mask replaced by those of the int `value`"""
    return [((value >> i) & 1) if (mask >> i) & 1 else old_bits[i] for i in range(8)]


def put_terms(old_bits, mapping):
    out = list(old_bits)
    for i, t in mapping.items():
        out[i] = t
    return out


def any_bit(bits):
    r = 0
    for b in bits:
        r = t_or(r, b)
    return r


def clamp(x, lo, hi):
    return max(lo, min(x, hi))


PIPES_BAD = [-2, -1, 6, 7, 255]
PIPES_OK = [0, 1, 2, 3, 4, 5]

CONFIG, EN_AA, EN_RXADDR, SETUP_AW, SETUP_RETR, RF_CH, RF_SETUP = 0, 1, 2, 3, 4, 5, 6
RX_ADDR_P0, TX_ADDR, RX_PW_P0, DYNPD, FEATURE = 0x0A, 0x10, 0x11, 0x1C, 0x1D


# ------------------------------------------------------------------ setters
def sc_channel():
    for x in [-1, 0, 1, 76, 125, 126, 127, 128, 255, 256, True]:
        if 0 <= int(x) <= 125:
            yield "channel=%r" % x, [x], (lambda old, x=x: {"regs": {RF_CH: const_bits(int(x))}})
        else:
            yield "channel=%r" % x, [x], (lambda old: {"raise": "ValueError"})


def sc_data_rate():
    enc = {1: 0x00, 2: 0x08, 250: 0x20}
    for x in [1, 2, 250, 0, 3, 8, 32, 249, 251, -1]:
        if x in enc:
            yield "data_rate=%r" % x, [x], (lambda old, x=x: {"regs": {RF_SETUP: put(old(RF_SETUP), 0x28, enc[x])}})
        else:
            yield "data_rate=%r" % x, [x], (lambda old: {"raise": "ValueError"})


def sc_pa_level():
    enc = {-18: 0, -12: 2, -6: 4, 0: 6}
    for x in [-18, -12, -6, 0, -24, -17, -7, 6, 1, 3]:
        if x in enc:
            yield "pa_level=%r" % x, [x], (lambda old, x=x: {"regs": {RF_SETUP: put(old(RF_SETUP), 0x07, enc[x] | 1)}})
        else:
            yield "pa_level=%r" % x, [x], (lambda old: {"raise": "ValueError"})
    for x in [-18, -12, -6, 0]:
        for lna in [True, False, 1, 0]:
            for ctor in (list, tuple):
                yield "pa_level=%r" % (ctor([x, lna]),), [ctor([x, lna])], (
                    lambda old, x=x, lna=lna: {"regs": {RF_SETUP: put(old(RF_SETUP), 0x07, enc[x] | int(bool(lna)))}})
    yield "pa_level=[-5, True]", [[-5, True]], (lambda old: {"raise": "ValueError"})


def sc_crc():
    enc = {0: 0x00, 1: 0x08, 2: 0x0C}
    for x in [0, 1, 2, 3, 16, -1, -2, True]:
        e = enc[min(2, abs(int(x)))]
        yield "crc=%r" % x, [x], (lambda old, e=e: {"regs": {CONFIG: put(old(CONFIG), 0x0C, e)}})


def sc_arc():
    for x in [-1, 0, 1, 7, 15, 16, 100]:
        yield "arc=%r" % x, [x], (lambda old, x=x: {"regs": {SETUP_RETR: put(old(SETUP_RETR), 0x0F, clamp(x, 0, 15))}})


def ard_code(us):
    return (clamp(us, 250, 4000) - 250) // 250


def sc_ard():
    for x in [0, 249, 250, 251, 499, 500, 1500, 3999, 4000, 4001, 4250, 10000]:
        yield "ard=%r" % x, [x], (lambda old, x=x: {"regs": {SETUP_RETR: put(old(SETUP_RETR), 0xF0, ard_code(x) << 4)}})


def sc_set_auto_retries():
    for d in [0, 250, 1500, 4000, 4250]:
        for c in [-1, 0, 5, 15, 16]:
            yield "set_auto_retries(%r,%r)" % (d, c), [d, c], (
                lambda old, d=d, c=c: {"regs": {SETUP_RETR: const_bits(ard_code(d) << 4 | clamp(c, 0, 15))}})


def sc_address_length():
    for x in [-1, 0, 1, 2, 3, 4, 5, 6, 255]:
        aw = x - 2 if 3 <= x <= 5 else 0
        yield "address_length=%r" % x, [x], (lambda old, aw=aw: {"regs": {SETUP_AW: const_bits(aw)}})


def sc_power():
    for x in [True, False, 1, 0, 2]:
        yield "power=%r" % x, [x], (lambda old, x=x: {"regs": {CONFIG: put(old(CONFIG), 0x02, 2 if x else 0)}})


def sc_allow_ask_no_ack():
    for x in [True, False, 1, 0, 2]:
        yield "allow_ask_no_ack=%r" % x, [x], (lambda old, x=x: {"regs": {FEATURE: put(old(FEATURE), 0x01, 1 if x else 0)}})


def sc_interrupt_config():
    for dr in (True, False, 2):
        for ds in (True, False):
            for df in (True, False, 0):
                v = (0 if dr else 0x40) | (0 if ds else 0x20) | (0 if df else 0x10)
                yield "interrupt_config(%r,%r,%r)" % (dr, ds, df), [dr, ds, df], (
                    lambda old, v=v: {"regs": {CONFIG: put(old(CONFIG), 0x70, v)}})


def per_pipe_new(old_bits, value):
    """register value for the bool / int / list forms of auto_ack and dynamic_payloads"""
    if isinstance(value, bool):
        return const_bits(0x3F if value else 0)
    if isinstance(value, int):
        return const_bits(value & 0x3F)
    out = list(old_bits)
    for i, v in enumerate(value):
        if i < 6 and v >= 0:
            out[i] = 1 if v else 0
    return out


PER_PIPE_VALUES = [True, False, 0, 1, 0x15, 0x3F, 0x40, 0xFF, 0x155,
                   [True], [False], [0, 1, 0, 1, 0, 1], [1, -1, 0, -1, 1, -1], [1, 1, 1, 1, 1, 1, 1], [0, 0, 0, 0, 0, 0, 0, 1],
                   (True, False), [-1, -1, -1, -1, -1, -1], []]


def sc_auto_ack():
    for x in PER_PIPE_VALUES:
        yield "auto_ack=%r" % (x,), [x], (lambda old, x=x: {"regs": {EN_AA: per_pipe_new(old(EN_AA), x)}})
    for x in ["on", 1.5, None]:
        yield "auto_ack=%r" % (x,), [x], (lambda old: {"raise": "ValueError"})


def sc_dynamic_payloads():
    for x in PER_PIPE_VALUES:
        def exp(old, x=x):
            new = per_pipe_new(old(DYNPD), x)
            return {"regs": {DYNPD: new, FEATURE: put_terms(old(FEATURE), {2: any_bit(new)})}}
        yield "dynamic_payloads=%r" % (x,), [x], exp
    for x in ["on", 1.5, None]:
        yield "dynamic_payloads=%r" % (x,), [x], (lambda old: {"raise": "ValueError"})


def sc_set_auto_ack():
    for en in (True, False, 1, 0, 2):
        for p in PIPES_OK:
            yield "set_auto_ack(%r,%r)" % (en, p), [en, p], (
                lambda old, en=en, p=p: {"regs": {EN_AA: put(old(EN_AA), 1 << p, (1 << p) if en else 0)}})
        for p in PIPES_BAD:
            yield "set_auto_ack(%r,%r)" % (en, p), [en, p], (lambda old: {"raise": "IndexError"})
        yield "set_auto_ack(%r,None)" % (en,), [en, None], (lambda old, en=en: {"regs": {EN_AA: const_bits(0x3F if en else 0)}})


def sc_set_dynamic_payloads():
    for en in (True, False, 1, 0, 2):
        for p in PIPES_OK:
            def exp(old, en=en, p=p):
                new = put(old(DYNPD), 1 << p, (1 << p) if en else 0)
                return {"regs": {DYNPD: new, FEATURE: put_terms(old(FEATURE), {2: any_bit(new)})}}
            yield "set_dynamic_payloads(%r,%r)" % (en, p), [en, p], exp
        for p in PIPES_BAD:
            yield "set_dynamic_payloads(%r,%r)" % (en, p), [en, p], (lambda old: {"raise": "IndexError"})

        def exp_all(old, en=en):
            return {"regs": {DYNPD: const_bits(0x3F if en else 0), FEATURE: put(old(FEATURE), 4, 4 if en else 0)}}
        yield "set_dynamic_payloads(%r)" % (en,), [en], exp_all


def sc_payload_length():
    for x in [-5, 0, 1, 8, 31, 32, 33, 64, 255, 256]:
        v = clamp(x, 1, 32)
        yield "payload_length=%r" % x, [x], (lambda old, v=v: {"regs": {RX_PW_P0 + i: const_bits(v) for i in range(6)}})
    for x in [[8], [1, 2, 3, 4, 5, 6], [0, 40, -1, 16], [32, 33, 64, 255, 256, 1, 7], (5, 0, 5)]:
        def exp(old, x=x):
            regs = {}
            for i, v in enumerate(x):
                if i < 6 and v > 0:
                    regs[RX_PW_P0 + i] = const_bits(min(32, v))
            return {"regs": regs}
        yield "payload_length=%r" % (x,), [x], exp
    for x in ["8", 1.5, None]:
        yield "payload_length=%r" % (x,), [x], (lambda old: {"raise": "ValueError"})


def sc_set_payload_length():
    for x in [-5, 0, 1, 8, 32, 33, 40, 255, 256]:
        v = clamp(x, 1, 32)
        for p in PIPES_OK:
            yield "set_payload_length(%r,%r)" % (x, p), [x, p], (lambda old, v=v, p=p: {"regs": {RX_PW_P0 + p: const_bits(v)}})
        yield "set_payload_length(%r)" % (x,), [x], (lambda old, v=v: {"regs": {RX_PW_P0 + i: const_bits(v) for i in range(6)}})
    for p in PIPES_BAD:
        yield "set_payload_length(8,%r)" % (p,), [8, p], (lambda old: {"raise": "IndexError"})


def sc_ack():
    def on(old):
        return {"regs": {EN_AA: put(old(EN_AA), 1, 1), DYNPD: put(old(DYNPD), 1, 1), FEATURE: put(old(FEATURE), 0x06, 0x06)}}

    def off(old):
        return {"regs": {FEATURE: put(old(FEATURE), 0x02, 0)}}
    for x in (True, 1, 2):
        yield "ack=%r" % x, [x], on
    for x in (False, 0):
        yield "ack=%r" % x, [x], off


def sc_close_rx_pipe():
    for p in PIPES_OK:
        yield "close_rx_pipe(%r)" % p, [p], (lambda old, p=p: {"regs": {EN_RXADDR: put(old(EN_RXADDR), 1 << p, 0)}})
    for p in PIPES_BAD:
        yield "close_rx_pipe(%r)" % p, [p], (lambda old: {"raise": "IndexError"})


SETTERS = {
    # name: (kind, scenario generator)      kind: 'prop' (property setter) | 'method'
    "channel": ("prop", sc_channel),
    "data_rate": ("prop", sc_data_rate),
    "pa_level": ("prop", sc_pa_level),
    "crc": ("prop", sc_crc),
    "arc": ("prop", sc_arc),
    "ard": ("prop", sc_ard),
    "set_auto_retries": ("method", sc_set_auto_retries),
    "address_length": ("prop", sc_address_length),
    "power": ("prop", sc_power),
    "allow_ask_no_ack": ("prop", sc_allow_ask_no_ack),
    "interrupt_config": ("method", sc_interrupt_config),
    "auto_ack": ("prop", sc_auto_ack),
    "dynamic_payloads": ("prop", sc_dynamic_payloads),
    "set_auto_ack": ("method", sc_set_auto_ack),
    "set_dynamic_payloads": ("method", sc_set_dynamic_payloads),
    "payload_length": ("prop", sc_payload_length),
    "set_payload_length": ("method", sc_set_payload_length),
    "ack": ("prop", sc_ack),
    "close_rx_pipe": ("method", sc_close_rx_pipe),
}

# ------------------------------------------------------------------ getters
# name: (kind, register pins generator)  pins: {reg: int value of the whole register or (mask, value)}
# expectation: python value returned


def gt_channel():
    for v in [0, 1, 76, 125]:
        yield {RF_CH: v}, [], v


def gt_data_rate():
    for other in (0x00, 0x07, 0x87):
        for bits, exp in [(0x00, 1), (0x08, 2), (0x20, 250)]:
            yield {RF_SETUP: other | bits}, [], exp


def gt_pa_level():
    for other in (0x00, 0x29, 0x01):
        for f, exp in [(0, -18), (2, -12), (4, -6), (6, 0)]:
            yield {RF_SETUP: other | f}, [], exp


def gt_is_lna_enabled():
    for v, exp in [(0x00, False), (0x01, True), (0x2E, False), (0x2F, True)]:
        yield {RF_SETUP: v}, [], exp


def gt_crc():
    for cfg in (0x00, 0x04, 0x08, 0x0C, 0x7A, 0x7E):
        for aa in (0, 1, 0x3F, 0x3E, 0x02, 0x20):
            en, two = cfg & 8, cfg & 4
            if aa:
                exp = 2 if two else 1   # CRC is forced on by the radio when any pipe auto-acknowledges
            else:
                exp = 0 if not en else (2 if two else 1)
            yield {CONFIG: cfg, EN_AA: aa}, [], exp


def gt_arc():
    for v in (0x00, 0x0F, 0x5F, 0xF3):
        yield {SETUP_RETR: v}, [], v & 0x0F


def gt_ard():
    for v in (0x00, 0x0F, 0x5F, 0xF3):
        yield {SETUP_RETR: v}, [], (v >> 4) * 250 + 250


def gt_get_auto_retries():
    for v in (0x00, 0x5F, 0xF3):
        yield {SETUP_RETR: v}, [], ((v >> 4) * 250 + 250, v & 0x0F)


def gt_address_length():
    for v in (0, 1, 2, 3):
        yield {SETUP_AW: v}, [], v + 2


def gt_power():
    for v, exp in [(0x00, False), (0x02, True), (0x7D, False), (0x0E, True)]:
        yield {CONFIG: v}, [], exp


def gt_listen():
    for v, exp in [(0x00, False), (0x01, False), (0x02, False), (0x03, True), (0x0F, True), (0x0E, False), (0x0D, False)]:
        yield {CONFIG: v}, [], exp


def gt_allow_ask_no_ack():
    for v, exp in [(0, False), (1, True), (6, False), (7, True)]:
        yield {FEATURE: v}, [], exp


def gt_auto_ack():
    for v in (0, 1, 0x15, 0x3F):
        yield {EN_AA: v}, [], v


def gt_dynamic_payloads():
    for v in (0, 1, 0x15, 0x3F):
        yield {DYNPD: v}, [], v


def gt_get_auto_ack():
    for v in (0, 0x15, 0x3F):
        for p in PIPES_OK:
            yield {EN_AA: v}, [p], bool(v & (1 << p))
    for p in PIPES_BAD:
        yield {EN_AA: 0x3F}, [p], ("raise", "IndexError")


def gt_get_dynamic_payloads():
    for v in (0, 0x15, 0x3F):
        for p in PIPES_OK:
            yield {DYNPD: v}, [p], bool(v & (1 << p))
    for p in PIPES_BAD:
        yield {DYNPD: 0x3F}, [p], ("raise", "IndexError")


def gt_ack():
    for feat in (0, 2, 4, 6, 7):
        for aa in (0, 1, 0x3E, 0x3F):
            for dyn in (0, 1, 0x3E, 0x3F):
                yield {FEATURE: feat, EN_AA: aa, DYNPD: dyn}, [], bool(feat & 6 == 6 and aa & dyn & 1)


def gt_payload_length():
    for v in (1, 8, 32):
        yield {RX_PW_P0: v}, [], v


def gt_get_payload_length():
    for p in PIPES_OK:
        for v in (1, 17, 32):
            yield {RX_PW_P0 + p: v}, [p], v
    for p in PIPES_BAD:
        yield {}, [p], ("raise", "IndexError")


GETTERS = {
    "channel": ("prop", gt_channel),
    "data_rate": ("prop", gt_data_rate),
    "pa_level": ("prop", gt_pa_level),
    "is_lna_enabled": ("prop", gt_is_lna_enabled),
    "crc": ("prop", gt_crc),
    "arc": ("prop", gt_arc),
    "ard": ("prop", gt_ard),
    "get_auto_retries": ("method", gt_get_auto_retries),
    "address_length": ("prop", gt_address_length),
    "power": ("prop", gt_power),
    "listen": ("prop", gt_listen),
    "allow_ask_no_ack": ("prop", gt_allow_ask_no_ack),
    "auto_ack": ("prop", gt_auto_ack),
    "dynamic_payloads": ("prop", gt_dynamic_payloads),
    "get_auto_ack": ("method", gt_get_auto_ack),
    "get_dynamic_payloads": ("method", gt_get_dynamic_payloads),
    "ack": ("prop", gt_ack),
    "payload_length": ("prop", gt_payload_length),
    "get_payload_length": ("method", gt_get_payload_length),
}

# Documented exceptions to 'every register write keeps the shadow current':
# on non-plus radios start_carrier_wave() deliberately overrides EN_AA, SETUP_RETR,
# TX_ADDR and CONFIG without touching the shadows (docs: restore with `with`).
CARRIER_RAW = {EN_AA: 0x00, SETUP_RETR: 0x00, CONFIG: 0x73}
