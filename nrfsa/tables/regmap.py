"""nRF24L01+ register map and SPI commands, from the Product Specification v1.0
(section 8.3.1 'SPI commands', section 9.1 'Register map table').  Written from
the datasheet, independently of the driver source."""

# address -> (name, width in bytes, reserved-bit mask (must be written 0), fields)
# fields: name -> (mask, legal values of (value & mask) or None for any)
REGS = {
    0x00: ("CONFIG", 1, 0x80, {"MASK_RX_DR": 0x40, "MASK_TX_DS": 0x20, "MASK_MAX_RT": 0x10, "EN_CRC": 0x08, "CRCO": 0x04, "PWR_UP": 0x02, "PRIM_RX": 0x01}),
    0x01: ("EN_AA", 1, 0xC0, {"ENAA": 0x3F}),
    0x02: ("EN_RXADDR", 1, 0xC0, {"ERX": 0x3F}),
    0x03: ("SETUP_AW", 1, 0xFC, {"AW": 0x03}),
    0x04: ("SETUP_RETR", 1, 0x00, {"ARD": 0xF0, "ARC": 0x0F}),
    0x05: ("RF_CH", 1, 0x80, {"RF_CH": 0x7F}),
    0x06: ("RF_SETUP", 1, 0x40, {"CONT_WAVE": 0x80, "RF_DR_LOW": 0x20, "PLL_LOCK": 0x10, "RF_DR_HIGH": 0x08, "RF_PWR": 0x06, "LNA_HCURR": 0x01}),
    0x07: ("STATUS", 1, 0x80, {"RX_DR": 0x40, "TX_DS": 0x20, "MAX_RT": 0x10, "RX_P_NO": 0x0E, "TX_FULL": 0x01}),
    0x08: ("OBSERVE_TX", 1, 0x00, {"PLOS_CNT": 0xF0, "ARC_CNT": 0x0F}),
    0x09: ("RPD", 1, 0xFE, {"RPD": 0x01}),
    0x0A: ("RX_ADDR_P0", 5, 0, {}),
    0x0B: ("RX_ADDR_P1", 5, 0, {}),
    0x0C: ("RX_ADDR_P2", 1, 0, {}),
    0x0D: ("RX_ADDR_P3", 1, 0, {}),
    0x0E: ("RX_ADDR_P4", 1, 0, {}),
    0x0F: ("RX_ADDR_P5", 1, 0, {}),
    0x10: ("TX_ADDR", 5, 0, {}),
    0x11: ("RX_PW_P0", 1, 0xC0, {"RX_PW": 0x3F}),
    0x12: ("RX_PW_P1", 1, 0xC0, {"RX_PW": 0x3F}),
    0x13: ("RX_PW_P2", 1, 0xC0, {"RX_PW": 0x3F}),
    0x14: ("RX_PW_P3", 1, 0xC0, {"RX_PW": 0x3F}),
    0x15: ("RX_PW_P4", 1, 0xC0, {"RX_PW": 0x3F}),
    0x16: ("RX_PW_P5", 1, 0xC0, {"RX_PW": 0x3F}),
    0x17: ("FIFO_STATUS", 1, 0x8C, {"TX_REUSE": 0x40, "TX_FULL": 0x20, "TX_EMPTY": 0x10, "RX_FULL": 0x02, "RX_EMPTY": 0x01}),
    0x1C: ("DYNPD", 1, 0xC0, {"DPL": 0x3F}),
    0x1D: ("FEATURE", 1, 0xF8, {"EN_DPL": 0x04, "EN_ACK_PAY": 0x02, "EN_DYN_ACK": 0x01}),
}

# registers that hold configuration (restored by `with`); STATUS/OBSERVE_TX/RPD/FIFO_STATUS are state, not configuration
CONFIG_REGS = [0x00, 0x01, 0x02, 0x03, 0x04, 0x05, 0x06, 0x0A, 0x0B, 0x0C, 0x0D, 0x0E, 0x0F, 0x10,
               0x11, 0x12, 0x13, 0x14, 0x15, 0x16, 0x1C, 0x1D]

# numeric value limits of fields (inclusive) where narrower than the mask
LIMITS = {
    0x05: (0, 125),          # RF_CH: 2.400 .. 2.525 GHz
    0x03: (0, 3),            # AW: '00' illegal per datasheet but documented by the library since 2.1.0 (2-byte addresses)
    # RX_PW: the datasheet allows 0 (= pipe not used); the driver documents and maintains [1, 32]
    0x11: (1, 32), 0x12: (1, 32), 0x13: (1, 32), 0x14: (1, 32), 0x15: (1, 32), 0x16: (1, 32),
}

# SPI commands
R_REGISTER = 0x00       # 000A AAAA
W_REGISTER = 0x20       # 001A AAAA
R_RX_PAYLOAD = 0x61
W_TX_PAYLOAD = 0xA0
FLUSH_TX = 0xE1
FLUSH_RX = 0xE2
REUSE_TX_PL = 0xE3
R_RX_PL_WID = 0x60
W_ACK_PAYLOAD = 0xA8    # 1010 1PPP
W_TX_PAYLOAD_NOACK = 0xB0
ACTIVATE = 0x50         # nRF24L01 (non-plus) only, followed by 0x73
NOP = 0xFF

COMMANDS = {0x61: "R_RX_PAYLOAD", 0xA0: "W_TX_PAYLOAD", 0xE1: "FLUSH_TX", 0xE2: "FLUSH_RX", 0xE3: "REUSE_TX_PL",
            0x60: "R_RX_PL_WID", 0xA8: "W_ACK_PAYLOAD", 0xA9: "W_ACK_PAYLOAD", 0xAA: "W_ACK_PAYLOAD", 0xAB: "W_ACK_PAYLOAD",
            0xAC: "W_ACK_PAYLOAD", 0xAD: "W_ACK_PAYLOAD", 0xB0: "W_TX_PAYLOAD_NOACK", 0x50: "ACTIVATE", 0xFF: "NOP"}

# STATUS bits
RX_DR, TX_DS, MAX_RT, TX_FULL = 0x40, 0x20, 0x10, 0x01
RX_P_NO_MASK, RX_P_NO_SHIFT = 0x0E, 1

MAX_PAYLOAD = 32
NUM_PIPES = 6
