"""Wire constants of TMRh20's RF24Network / RF24Mesh (RF24Network_config.h, RF24Network.h, RF24Mesh_config.h,
RF24Mesh.h) and the address grammar of docs/network_docs/topology.rst.  Written from those sources, not from
the python package."""

HEADER_CODES = ("H", "H", "H", "B", "B")          # struct RF24NetworkHeader {uint16 from, to, id; uint8 type, reserved;}
HEADER_ORDER = ("from_node", "to_node", "frame_id", "message_type", "reserved")
HEADER_SIZE = 8
HEADER_MASKS = {"from_node": 0xFFF, "to_node": 0xFFF, "frame_id": 0xFFFF, "message_type": 0xFF, "reserved": 0xFF}
MAX_FRAME_SIZE = 32
MAX_LEVEL = 4                                      # 12-bit addresses: 4 octal digits => levels 0..4
MAX_CHILDREN = 5                                   # pipes 1..5

CONSTANTS = {
    "MAX_USR_DEF_MSG_TYPE": 127,
    "NETWORK_DEFAULT_ADDR": 0o4444,
    "MAX_FRAG_SIZE": 24,                           # MAX_FRAME_SIZE - sizeof(RF24NetworkHeader)
    "NETWORK_MULTICAST_ADDR": 0o100,
    "NETWORK_MULTICAST_ADDR_LVL_2": 0o10,
    "NETWORK_MULTICAST_ADDR_LVL_4": 0o1000,
    "MESH_LOOKUP_TIMEOUT": 135,
    "MESH_MAX_POLL": 4,
    "MESH_MAX_CHILDREN": 4,
    "MESH_WRITE_TIMEOUT": 115,
    "AUTO_ROUTING": 0o70,
    "TX_NORMAL": 0,
    "TX_ROUTED": 1,
    "TX_PHYSICAL": 2,                              # USER_TX_TO_PHYSICAL_ADDRESS
    "TX_LOGICAL": 3,                               # USER_TX_TO_LOGICAL_ADDRESS
    "TX_MULTICAST": 4,                             # USER_TX_MULTICAST
    "NETWORK_ACK": 193,
    "NETWORK_PING": 130,
    "NETWORK_POLL": 194,
    "MESH_ADDR_REQUEST": 195,                      # NETWORK_REQ_ADDRESS
    "MESH_ADDR_RESPONSE": 128,                     # NETWORK_ADDR_RESPONSE
    "NETWORK_EXT_DATA": 131,                       # EXTERNAL_DATA_TYPE
    "MESH_ADDR_RELEASE": 197,
    "MESH_ADDR_LOOKUP": 196,
    "MESH_ID_LOOKUP": 198,
    "MSG_FRAG_FIRST": 148,                         # NETWORK_FIRST_FRAGMENT
    "MSG_FRAG_MORE": 149,                          # NETWORK_MORE_FRAGMENTS
    "MSG_FRAG_LAST": 150,                          # NETWORK_LAST_FRAGMENT
}

# message types that expect a NETWORK_ACK: 65..191 ("System message types 65-127 / user types with network ACK")
ACK_TYPE_RANGE = (65, 191)
DOWN_ROUTE_PIPE = 5                                # descendants are reached through the parent's pipe 5 equivalent ("pipe 5" in logicalToPhysicalStruct)
MULTICAST_PIPE = 0
VALID_DIGITS = (1, 5)                              # each octal digit of a logical address is 1..5
