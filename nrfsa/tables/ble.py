"""Bluetooth LE advertising constants (Core Specification v4.0+, Vol 6 Part B: 2.3 advertising channel PDU,
3.1.1 CRC, 3.2 whitening; Vol 3 Part C / CSS: AD types) and the nRF24 fake-BLE mapping (D. Grinberg)."""
PDU_TYPE = 0x42                 # ADV_NONCONN_IND (0010) with TxAdd = 1 (random address)
HEADER_LEN = 2                  # PDU type byte + length byte
MAC_LEN = 6                     # AdvA
FLAGS_AD_LEN = 3                # 02 01 05: LE limited discoverable + BR/EDR not supported
TXPOWER_AD_LEN = 3              # 02 0A <int8>
CRC_LEN = 3
RADIO_PAYLOAD = 32              # nRF24L01 payload size
AD_FLAGS, AD_SHORT_NAME, AD_COMPLETE_NAME, AD_TX_POWER, AD_SERVICE_DATA, AD_MANUFACTURER = 0x01, 0x08, 0x09, 0x0A, 0x16, 0xFF
CRC_POLY = 0x65B                # x^24 + x^10 + x^9 + x^6 + x^4 + x^3 + x + 1 (low 24 bits)
CRC_INIT = 0x555555             # advertising channels
BLE_FREQ = (2, 26, 80)          # channels 37, 38, 39 = 2402, 2426, 2480 MHz = nRF channels 2, 26, 80
FIRST_ADV_CHANNEL = 37
WHITEN_SEED_BIT = 0x40          # LFSR position 0 is set to one, positions 1-6 hold the channel index
UUID_TEMPERATURE, UUID_BATTERY, UUID_EDDYSTONE = 0x1809, 0x180F, 0xFEAA
EDDYSTONE_URL_FRAME = 0x10


# Eddystone-URL specification (github.com/google/eddystone/tree/master/eddystone-url): URL scheme prefix codes and expansion codes
URL_SCHEME_PREFIXES = {0: "http://www.", 1: "https://www.", 2: "http://", 3: "https://"}
URL_EXPANSIONS = {0: ".com/", 1: ".org/", 2: ".edu/", 3: ".net/", 4: ".info/", 5: ".biz/", 6: ".gov/",
                  7: ".com", 8: ".org", 9: ".edu", 10: ".net", 11: ".info", 12: ".biz", 13: ".gov"}
