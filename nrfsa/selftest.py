"""L7 - the checker checked both ways: armed variants (one instance broken, must be
reported by the expected rule) and neutral twins (behaviour preserving rewrites,
must stay silent).  Variants are source overlays applied in memory to the tree
under analysis; nothing is written to disk and nothing is executed."""
import os
import multiprocessing as mp
from .model import Program, AnalysisError
from . import report


def _apply(root, variant):
    rel = variant["file"]
    path = os.path.join(root, "circuitpython_nrf24l01", rel)
    with open(path, encoding="utf-8") as fh:
        src = fh.read()
    old, new = variant["old"], variant["new"]
    cnt = src.count(old)
    if cnt == 0:
        return None
    if variant.get("all"):
        return {rel: src.replace(old, new)}
    k = variant.get("nth", 0)
    idx = -1
    for _ in range(k + 1):
        idx = src.find(old, idx + 1)
        if idx < 0:
            return None
    return {rel: src[:idx] + new + src[idx + len(old):]}


def apply_unified(diff_text, read):
    """apply a `git diff` to file texts in memory.  Like `git apply`, a hunk whose context is found a few lines away from the recorded
    position (the file gained or lost lines elsewhere) is applied there; no fuzz inside a hunk.  read(rel) -> text.
    Returns {rel: new text} or None when a hunk does not match."""
    import re
    out = {}
    files = re.split(r"^diff --git .*$", diff_text, flags=re.M)[1:]
    for chunk in files:
        m = re.search(r"^\+\+\+ b/(.+)$", chunk, flags=re.M)
        if not m:
            return None
        rel = m.group(1).strip()
        try:
            src = read(rel).split("\n")
        except OSError:
            return None
        new, pos, shift = [], 0, 0
        for hm in re.finditer(r"^@@ -(\d+)(?:,(\d+))? \+\d+(?:,\d+)? @@.*\n((?:[ +\-\\].*\n?|\n)*)", chunk, flags=re.M):
            start = int(hm.group(1)) - 1
            if hm.group(2) == "0":
                start += 1
            ops = []
            for ln in hm.group(3).split("\n"):
                if ln.startswith("\\") or ln == "":
                    continue
                ops.append((ln[0], ln[1:]))
            old = [b for t, b in ops if t in (" ", "-")]
            # find the old lines at the recorded position, else nearby (nearest first), never before what was already consumed
            found = None
            for delta in sorted(range(-200, 201), key=abs):
                at = start + shift + delta
                if at < pos or at + len(old) > len(src):
                    continue
                if src[at:at + len(old)] == old:
                    found = at
                    break
            if found is None:
                return None
            shift = found - start
            new.extend(src[pos:found])
            pos = found
            for tag, body in ops:
                if tag == " ":
                    new.append(body)
                    pos += 1
                elif tag == "-":
                    pos += 1
                elif tag == "+":
                    new.append(body)
        new.extend(src[pos:])
        out[rel] = "\n".join(new)
    return out


def _apply_patch(root, variant):
    def read(rel):
        with open(os.path.join(root, rel), encoding="utf-8") as fh:
            return fh.read()
    res = apply_unified(variant["diff"], read)
    if res is None:
        return None
    pre = "circuitpython_nrf24l01/"
    if not all(k.startswith(pre) for k in res):
        return None
    return {k[len(pre):]: v for k, v in res.items()}


def _one(job):
    root, modname, pid, variant = job
    import importlib
    mod = importlib.import_module(modname)
    ov = _apply_patch(root, variant) if "diff" in variant else _apply(root, variant)
    if ov is None:
        return (variant["name"], "skipped", [])
    ck = None
    try:
        prog = Program(root, overlay=ov)
        ck = report.Checker(pid, prog, "quick", root)
        from .rules import common
        common.closed_world(ck)          # as ./check does: a variant the analyser has to refuse is an error, not a silent pass
        mod.run(ck)
    except Exception as exc:  # noqa
        # like ./check: findings made before the analyser gave up are reported as findings
        for ag in getattr(ck, "aggs", []) if ck is not None else []:
            try:
                ag.flush()
            except Exception:  # noqa
                pass
        fails = sorted({o.rule + " " + o.func + " :: " + o.construct for o in ck.obls if not o.ok}) if ck is not None else []
        if not fails:
            return (variant["name"], "error", [str(exc) if isinstance(exc, AnalysisError) else repr(exc)])
        return (variant["name"], "ran", fails)
    fails = sorted({o.rule + " " + o.func + " :: " + o.construct for o in ck.obls if not o.ok})
    if not fails and ck.floor_failures:
        return (variant["name"], "error", list(ck.floor_failures))
    return (variant["name"], "ran", fails)


def run_variants(root, mod, pid, baseline_fail_keys=()):
    jobs = [(root, mod.__name__, pid, v) for v in mod.SELFTEST]
    if not jobs:
        return []
    nproc = min(16, len(jobs), os.cpu_count() or 1)
    with mp.get_context("fork").Pool(nproc) as pool:
        return pool.map(_one, jobs)


def run(ck, mod):
    base = sorted({o.rule + " " + o.func + " :: " + o.construct for o in ck.obls if not o.ok})
    res = run_variants(ck.root, mod, ck.pid)
    by = {v["name"]: v for v in mod.SELFTEST}
    armed = killed = neutral = silent = skipped = 0
    problems = []
    for name, status, fails in res:
        v = by[name]
        new = [f for f in fails if f not in base]
        if status == "skipped":
            skipped += 1
            continue
        if v.get("expect"):
            armed += 1
            if status == "error":
                killed += 1   # the analyser refused the variant (ANALYSIS-ERROR): not a silent pass
            elif any(f.startswith(v["expect"]) for f in new) or new:
                killed += 1
            else:
                problems.append("armed variant %s not reported by %s (got %s %s)" % (name, v["expect"], status, new[:3]))
        elif v.get("kind") == "refused":
            # behaviour-preserving, but outside what the analyser models (metaprogramming): the accepted outcomes are a refusal
            # (ANALYSIS-ERROR) or silence - never a violation
            neutral += 1
            if status == "error" or (status == "ran" and not new):
                silent += 1
            else:
                problems.append("neutral (refusable) variant %s raised %s %s" % (name, status, new[:3]))
        else:
            neutral += 1
            if status == "ran" and not new:
                silent += 1
            else:
                problems.append("neutral twin %s raised %s %s" % (name, status, new[:3]))
    ck.selftest = {"armed": armed, "killed": killed, "neutral": neutral, "silent": silent, "skipped": skipped}
    if problems:
        raise AnalysisError("self-test failed: " + "; ".join(problems[:6]))
