#!/bin/bash
# dev helper: L1=m L2=n ROUND=7 ./tools_seed_rN.sh C19 [siblings]  -> renames SEED/a,b, validates + archives both, prints who detects
pid=$1; shift
d=/tmp/seed_$pid/SEED
L1=${L1:-m}; L2=${L2:-n}; ROUND=${ROUND:-7}
[ -d $d/a ] && mv $d/a $d/$L1; [ -d $d/b ] && mv $d/b $d/$L2
export NRFSA_EVIDENCE_DIR=/tmp/seed_evidence
for w in $L1 $L2; do
  /verif/tools_seed_keep.py $pid $w "$@" 2>&1 | grep -v WARN
  /venv/bin/python - <<PY 2>&1 | grep -v WARN
import json,os
p='/verif/seeded/$pid-$w/meta.json'
if os.path.exists(p):
    m=json.load(open(p)); m['round']=$ROUND
    json.dump(m,open(p,'w'),indent=1)
    for q,d in m['checks_run'].items(): print('  ',q,d['exit'],d['first_report'][:300])
PY
done
