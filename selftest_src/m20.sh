./tools_mut.py C20 rf24_lite.py 'if 0 <= pipe_num <= 5 and buf and len(buf) <= 32:' 'if 0 <= pipe_num <= 5 and (not buf or (len(buf) < 32)):'
./tools_mut.py C20 rf24_lite.py '                buf = buf + b"\0" * (pl_width - len(buf))' '                buf += b"\0" * (pl_width - len(buf))'
./tools_mut.py C20 rf24_lite.py '        if not pipe_num:
            self._pipe0_read_addr = None' ''
./tools_mut.py C20 rf24_lite.py '        self.update()  # the STATUS byte clocked out above predates the clearing
' ''
./tools_mut.py C20 rf24_lite.py 'self._reg_write(4, (self._reg_read(4) & 0xF0) | max(0, min(int(cnt), 15)))' 'self._reg_write(4, (self._reg_read(4) & 0xF0) | max(0, min(int(cnt), 16)))'
./tools_mut.py C20 rf24_lite.py 'return self.update() and self._status >> 1 & 7 < 6' 'return self.update() and self._status >> 1 & 7 < 7'
./tools_mut.py C20 rf24_lite.py 'while not self._status & 0x30:
            self.update()
        result = bool(self._status & 0x20)
        while force_retry' 'while not self._status & 0x20:
            self.update()
        result = bool(self._status & 0x20)
        while force_retry'
./tools_mut.py C20 rf24_lite.py 'self._reg_write(6, self._reg_read(6) & 0xF8 | (3 - int(pwr / -6)) * 2 | 1)' 'self._reg_write(6, self._reg_read(6) & 0xF8 | (3 - int(pwr / -6)) * 2)'
./tools_mut.py C20 rf24_lite.py '            if self._pipe0_read_addr is not None:
                self._reg_write_bytes(0x0A, self._pipe0_read_addr)
            else:
                self.close_rx_pipe(0)' '            if self._pipe0_read_addr is not None:
                self._reg_write_bytes(0x0A, self._pipe0_read_addr)'
./tools_mut.py C20 rf24_lite.py 'self._reg_write_bytes(0xA8 | pipe_num, buf)' 'self._reg_write_bytes(0xA0 | pipe_num, buf)'
