./tools_mut.py C19 fake_ble.py '        if buf[0] == 0x16 and len(buf) < 3:
            return False  # service data too short to hold a 16-bit UUID
' ''
./tools_mut.py C19 fake_ble.py 'if size + i + 1 > end or i + 1 > end or not size:' 'if size + i + 1 > end + 4 or i + 1 > end or not size:'
./tools_mut.py C19 fake_ble.py 'if size + i + 1 > end or i + 1 > end or not size:' 'if size + i + 1 > end or i + 1 > end:'
./tools_mut.py C19 fake_ble.py '            if end < 30 and self.rx_cache[end : end + 3] == crc24_ble(' '            if self.rx_cache[end : end + 3] == crc24_ble('
./tools_mut.py C19 fake_ble.py '            if end < 30 and self.rx_cache[end : end + 3] == crc24_ble(
                self.rx_cache[:end]
            ):' '            if end < 30:'
./tools_mut.py C19 fake_ble.py '                service.data = buf[3:]  # type: ignore[assignment]
                self.data.append(service)
            elif service_data_uuid == BATTERY_UUID:' '                service.data = buf[2:]  # type: ignore[assignment]
                self.data.append(service)
            elif service_data_uuid == BATTERY_UUID:'
./tools_mut.py C19 fake_ble.py 'service.pa_level_at_1_meter = buf[4:5]' 'service.pa_level_at_1_meter = buf[3:4]'
./tools_mut.py C19 fake_ble.py '        pad = b"\xff" if self._data[2:3] >= b"\x80" else b"\0"  # sign-extend 24 -> 32 bits
        return struct.unpack("<i", self._data[:3] + pad)[0] * 10**-2' '        return struct.unpack("<i", self._data[:3] + b"\0")[0] * 10**-2'
./tools_mut.py C19 fake_ble.py '            ret_val = self.rx_queue[0]
            del self.rx_queue[0]' '            ret_val = self.rx_queue[-1]
            del self.rx_queue[-1]'
./tools_mut.py C19 fake_ble.py 'self.rx_cache = self.whiten(reverse_bits(self.rx_cache))' 'self.rx_cache = reverse_bits(self.whiten(self.rx_cache))'
./tools_mut.py C19 fake_ble.py '        if buf[0] == 0x0A and len(buf) == 2:  # if data' '        if buf[0] == 0x0A:  # if data'
./tools_mut.py C19 fake_ble.py 'self.mac: Union[bytes, bytearray] = bytes(buffer[2:8])' 'self.mac: Union[bytes, bytearray] = bytes([buffer[40]])'
./tools_mut.py C19 fake_ble.py 'self._type += bytes([0x10]) + struct.pack(">b", -25)' 'self._type += struct.pack(">b", -25)'
./tools_mut.py C19 fake_ble.py 'self.pa_level = struct.unpack("b", buf[1:2])[0]' 'self.pa_level = buf[1]'
./tools_mut.py C19 fake_ble.py 'self.pa_level = struct.unpack("b", buf[1:2])[0]' 'self.pa_level = int.from_bytes(buf[1:2], "little", signed=True)'
./tools_mut.py C19 fake_ble.py 'end = self.rx_cache[1] + 2' 'end = (self.rx_cache[1] & 0xFF) + 2'
./tools_mut.py C19 fake_ble.py 'end = self.rx_cache[1] + 2' 'end = (self.rx_cache[1] & 0x3F) + 2'
