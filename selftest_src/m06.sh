./tools_mut.py C06 network/structs.py '                and frame.header.frame_id == self._frags.header.frame_id
' ''
./tools_mut.py C06 network/structs.py 'self._frags.header.reserved - 1 != frame.header.reserved' 'self._frags.header.reserved != frame.header.reserved'
./tools_mut.py C06 network/structs.py 'self._frags.unpack(frame.pack())  # make copy not reference' 'self._frags = frame  # make copy not reference'
./tools_mut.py C06 network/structs.py '                    # message is complete; do not splice anything else onto it
                    self._frags.header.from_node = None  # type: ignore[assignment]
' ''
./tools_mut.py C06 network/structs.py 'self._frags.message += frame.message[:]' 'self._frags.message = frame.message[:] + self._frags.message'
./tools_mut.py C06 network/structs.py '                    self._frags.header.message_type = frame.header.reserved
' ''
./tools_mut.py C06 network/structs.py '                    # print("dropping non sequential fragment")
                    return False' '                    # print("dropping non sequential fragment")
                    return True'
./tools_mut.py C06 network/structs.py '                self._frags.header.from_node is not None  # if not just initialized
                and frame.header.from_node == self._frags.header.from_node' '                frame.header.from_node == self._frags.header.from_node'
./tools_mut.py C06 network/structs.py 'and frame.header.from_node == self._frags.header.from_node' 'and frame.header.to_node == self._frags.header.to_node'
./tools_mut.py C06 network/structs.py 'if frame.header.message_type in (MSG_FRAG_FIRST, MSG_FRAG_MORE, MSG_FRAG_LAST):' 'if frame.header.message_type in (MSG_FRAG_LAST, MSG_FRAG_FIRST, MSG_FRAG_MORE):'
