./tools_mut.py C13 network/structs.py 'return 64 < self.header.message_type < 192' 'return 64 <= self.header.message_type < 192'
./tools_mut.py C13 network/mixins.py '                and to_node == write_direct
                and self.frame_buf.header.from_node != self._addr' '                and self.frame_buf.header.from_node != self._addr'
./tools_mut.py C13 network/mixins.py '                and to_node == write_direct
                and self.frame_buf.header.from_node != self._addr' '                and to_node == write_direct'
./tools_mut.py C13 network/mixins.py '                self._write_to_pipe(ack_to_node, ack_to_pipe, is_multicast)' '                self._write_to_pipe(ack_to_node, ack_to_pipe, is_multicast) or self._write_to_pipe(ack_to_node, ack_to_pipe, is_multicast)'
./tools_mut.py C13 network/mixins.py '                    if time.monotonic_ns() > rx_timeout:
                        result = False
                        break' '                    if time.monotonic_ns() > rx_timeout:
                        break'
./tools_mut.py C13 network/mixins.py 'elif to_node != write_direct and send_type in (TX_NORMAL, TX_LOGICAL):' 'elif send_type in (TX_NORMAL, TX_LOGICAL):'
./tools_mut.py C13 network/mixins.py '        if result and is_ack_t:  # does' '        if is_ack_t:  # does'
./tools_mut.py C13 network/mixins.py 'rx_timeout = self.route_timeout * 1000000 + time.monotonic_ns()' 'rx_timeout = self.tx_timeout * 1000000 + time.monotonic_ns()'
./tools_mut.py C13 network/mixins.py '                self.frame_buf.header.to_node = self.frame_buf.header.from_node
                ack_to_node' '                ack_to_node'
./tools_mut.py C13 network/mixins.py '                send_type == TX_ROUTED
                and to_node == write_direct' '                send_type <= TX_ROUTED
                and to_node == write_direct'
./tools_mut.py C13 network/mixins.py 'if self.ret_sys_msg and msg_t > MAX_USR_DEF_MSG_TYPE or msg_t == NETWORK_ACK:' 'if self.ret_sys_msg and msg_t > MAX_USR_DEF_MSG_TYPE:'
./tools_mut.py C13 network/mixins.py 'timeout = delta_time * 1000000 + time.monotonic_ns()' 'timeout = delta_time * 3000000 + time.monotonic_ns()'
./tools_mut.py C13 network/mixins.py 'while not result and time.monotonic_ns() < timeout:' 'while not result:'
./tools_mut.py C13 network/mixins.py '            if not result:
                result = self._tx_standby(self.tx_timeout)' '            if not result:
                result = self._tx_standby(self.tx_timeout) or self._tx_standby(self.tx_timeout)'
./tools_mut.py C13 network/mixins.py '            if not result:
                result = self._tx_standby(self.tx_timeout)' '            if not result:
                result = self._tx_standby(self.route_timeout)'
./tools_mut.py C13 network/mixins.py '            if not result:
                result = self._tx_standby(self.tx_timeout)' '            if result is False:
                result = self._tx_standby(self.tx_timeout)'
