./tools_mut.py C11 network/structs.py '        ) = struct.unpack("HHHBB", buffer[:8])' '        ) = struct.unpack("HHBBH", buffer[:8])'
./tools_mut.py C11 network/structs.py '            self.from_node & 0xFFF,
            self.to_node & 0xFFF,' '            self.to_node & 0xFFF,
            self.from_node & 0xFFF,'
./tools_mut.py C11 network/structs.py '    def __len__(self) -> int:
        return 8
' '    def __len__(self) -> int:
        return 9
'
./tools_mut.py C11 network/mixins.py 'self.frame_buf.header.reserved = total - count' 'self.frame_buf.header.reserved = total - count - 1'
./tools_mut.py C11 network/constants.py 'MSG_FRAG_LAST = const(150)' 'MSG_FRAG_LAST = const(151)'
./tools_mut.py C11 network/mixins.py '                if not result:
                    break
            self.frame_buf.header.message_type = msg_t' '                if not result:
                    return result
            self.frame_buf.header.message_type = msg_t'
./tools_mut.py C11 network/structs.py '        if len(buffer) < 8:
            return False' '        if len(buffer) < 7:
            return False'
./tools_mut.py C11 network/mixins.py 'buf_end = count * MAX_FRAG_SIZE + MAX_FRAG_SIZE' 'buf_end = count * MAX_FRAG_SIZE + MAX_FRAG_SIZE + 1'
./tools_mut.py C11 network/structs.py '            self.message = buffer[8:]' '            self.message = buffer[7:]'
./tools_mut.py C11 network/mixins.py 'total = bool(msg_len % MAX_FRAG_SIZE) + int(msg_len / MAX_FRAG_SIZE)' 'total = 1 + int(msg_len / MAX_FRAG_SIZE)'
./tools_mut.py C11 network/structs.py '            msg_t & 0xFF,' '            msg_t,'
./tools_mut.py C11 network/mixins.py 'total = bool(msg_len % MAX_FRAG_SIZE) + int(msg_len / MAX_FRAG_SIZE)' 'total = (msg_len + MAX_FRAG_SIZE - 1) // MAX_FRAG_SIZE'
./tools_mut.py C11 network/mixins.py '        if len(self.frame_buf.message) <= MAX_FRAG_SIZE:
            result = self._rf24.send(' '        if len(self.frame_buf.message) < MAX_FRAG_SIZE:
            result = self._rf24.send('
./tools_mut.py C11 network/mixins.py '        if len(self.frame_buf.message) <= MAX_FRAG_SIZE:
            result = self._rf24.send(' '        if not len(self.frame_buf.message) > MAX_FRAG_SIZE:
            result = self._rf24.send('
