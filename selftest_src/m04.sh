./tools_mut.py C04 network/mixins.py '            mask = (mask << 3) & 0xFFFF
            self._net_lvl += 1' '            mask = (mask << 2) & 0xFFFF
            self._net_lvl += 1'
./tools_mut.py C04 network/mixins.py '            self._mask = (self._mask << 3) | 7' '            self._mask = (self._mask << 3) | 3'
./tools_mut.py C04 network/mixins.py '        self._parent = self._addr & (self._mask >> 3)' '        self._parent = self._addr & (self._mask >> 2)'
./tools_mut.py C04 network/mixins.py '            conv_to_pipe = 5
' '            conv_to_pipe = 4
'
./tools_mut.py C04 network/mixins.py 'conv_to_node = to_node & ((self._mask << 3) | 7)' 'conv_to_node = to_node & ((self._mask << 2) | 7)'
./tools_mut.py C04 network/mixins.py 'if not to_node & (self._mask_inv << 3):' 'if not to_node & (self._mask_inv << 2):'
./tools_mut.py C04 network/mixins.py '        self._rf24.open_tx_pipe(self._pipe_address(to_node, to_pipe))' '        self._rf24.open_tx_pipe(bytearray([self.address_suffix[to_pipe]]) + self.address_prefix * 4)'
./tools_mut.py C04 network/mixins.py '        for i in range(6):
            self._rf24.open_rx_pipe(i, self._pipe_address(n_addr, i))' '        for i in range(6):
            self._rf24.open_rx_pipe(i, self._pipe_address(n_addr, 5 - i))'
./tools_mut.py C04 network/mixins.py 'bytearray([0xC3, 0x3C, 0x33, 0xCE, 0x3E, 0xE3])' 'bytearray([0xC3, 0x3C, 0x33, 0xCE, 0x3C, 0xE3])'
./tools_mut.py C04 network/mixins.py 'elif to_node & self._mask == self._addr:  # to_node is a descendant' 'elif to_node & (self._mask >> 3) == self._addr:  # to_node is a descendant'
./tools_mut.py C04 network/mixins.py '            mask >>= 3
            self._parent_pipe >>= 3' '            mask >>= 3
            self._parent_pipe //= 8'
