./tools_mut.py C12 network/structs.py 'self._queue.append(new_frame)' 'self._queue.append(frame)'
./tools_mut.py C12 network/structs.py 'self._queue.pop(0)' 'self._queue.pop()'
./tools_mut.py C12 network/structs.py '                and frm.header.frame_id == frame.header.frame_id
' ''
./tools_mut.py C12 network/structs.py '                return False  # already enqueued this frame' '                return True  # already enqueued this frame'
./tools_mut.py C12 network/structs.py '            self.max_queue_size = queue.max_queue_size
' ''
./tools_mut.py C12 network/structs.py 'self._queue.append(new_frame)' 'self._queue.insert(0, new_frame)'
./tools_mut.py C12 network/structs.py 'if len(self._queue) >= self.max_queue_size:' 'if not len(self._queue) < self.max_queue_size:'
./tools_mut.py C12 network/mixins.py '        if enabled != self._frag_enabled:' '        if True:'
./tools_mut.py C12 network/structs.py 'if len(self._queue) >= self.max_queue_size:' 'if len(self._queue) == self.max_queue_size:'
./tools_mut.py C12 network/structs.py '        if queue is not None:' '        if queue:'
./tools_mut.py C12 network/structs.py '                    result = super().enqueue(self._frags)' '                    result = len(self._queue) < self.max_queue_size
                    if result:
                        self._queue.append(self._frags)
                        self._frags = RF24NetworkFrame()'
./tools_mut.py C12 network/structs.py '                    result = super().enqueue(self._frags)' '                    result = FrameQueue.enqueue(self, self._frags)'
