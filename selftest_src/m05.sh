./tools_mut.py C05 network/mixins.py 'if len(self.frame_buf.message) <= MAX_FRAG_SIZE:' 'if len(self.frame_buf.message) <= MAX_FRAG_SIZE + 1:'
./tools_mut.py C05 network/mixins.py '        if length > self.max_message_length:
            raise ValueError' '        if length > self.max_message_length + 1:
            raise ValueError'
./tools_mut.py C05 rf24_network.py '        if not self._validate_msg_len(len(frame.message)):
            frame.message = frame.message[:MAX_FRAG_SIZE]
' ''
./tools_mut.py C05 rf24_mesh.py 'message = message[:MAX_FRAG_SIZE]' 'message = message[:MAX_FRAG_SIZE + 8]'
./tools_mut.py C05 network/mixins.py '                self._write(self.frame_buf.header.to_node, TX_ROUTED)
                return (True, 0)' '                self.queue.enqueue(self.frame_buf)
                self._write(self.frame_buf.header.to_node, TX_ROUTED)
                return (True, 0)'
./tools_mut.py C05 network/mixins.py '                or not is_address_valid(self.frame_buf.header.from_node)
' ''
./tools_mut.py C05 network/mixins.py '            if self.frame_buf.header.to_node == self._addr:
                # frame was directed to this node' '            if self.frame_buf.header.to_node & self._mask == self._addr:
                # frame was directed to this node'
./tools_mut.py C05 network/mixins.py 'if length > MAX_FRAG_SIZE and not self._frag_enabled:' 'if length >= MAX_FRAG_SIZE and not self._frag_enabled:'
./tools_mut.py C05 network/mixins.py 'message = message[:MAX_FRAG_SIZE]' 'message = message[-MAX_FRAG_SIZE:]'
