./tools_mut.py C07 network/mixins.py '        # ready radio to continue listening
        self._rf24.listen = True
' '        # ready radio to continue listening
'
./tools_mut.py C07 network/mixins.py '                self._rf24.listen = True
                self._rf24.auto_ack = 0x3E
                rx_timeout' '                self._rf24.auto_ack = 0x3E
                rx_timeout'
./tools_mut.py C07 network/mixins.py '        if not is_multicast:
            self._rf24.auto_ack = 0x3E
        return result' '        return result'
./tools_mut.py C07 network/mixins.py 'self._rf24.auto_ack = 0x3E + (not is_multicast)' 'self._rf24.auto_ack = 0x3F'
./tools_mut.py C07 network/mixins.py '        result = self._write_to_pipe(to_node, to_pipe, is_multicast)
' '        result = self._write_to_pipe(to_node, to_pipe, is_multicast)
        if not result and send_type == TX_PHYSICAL:
            return False
'
./tools_mut.py C07 network/mixins.py '        self._rf24.open_rx_pipe(0, self._pipe_address(_lvl_2_addr(lvl), 0))
        self._rf24.listen = True' '        self._rf24.open_rx_pipe(0, self._pipe_address(_lvl_2_addr(lvl), 0))'
./tools_mut.py C07 network/mixins.py '        for i in range(6):
            self._rf24.open_rx_pipe' '        for i in range(5):
            self._rf24.open_rx_pipe'
./tools_mut.py C07 rf24_mesh.py '            if self._write(0, TX_NORMAL):
                super()._begin(NETWORK_DEFAULT_ADDR)
                return True' '            if self._write(0, TX_NORMAL):
                self._rf24.listen = False
                super()._begin(NETWORK_DEFAULT_ADDR)
                self._rf24.listen = False
                return True'
./tools_mut.py C07 network/mixins.py '                if not result:
                    break
            self.frame_buf.header.message_type = msg_t' '                if not result:
                    return result
            self.frame_buf.header.message_type = msg_t'
