./tools_mut.py C09 rf24.py '        self._reg_write(SETUP_RETR, self._retry_setup)
        for i, addr' '        for i, addr'
./tools_mut.py C09 rf24.py 'self._reg_write(0x05, self._channel)' 'self._reg_write(0x05, self._addr_len)'
./tools_mut.py C09 rf24.py 'self._config &= 0x7D  # power off radio' 'self._config &= 0x7F  # power off radio'
./tools_mut.py C09 rf24.py '        self._pl_len = [32] * 6  # 32-byte' '        self._pl_len = RF24._PL  # 32-byte'
./tools_mut.py C09 network/mixins.py 'self._rf24.__enter__()
' 'pass
'
./tools_mut.py C09 fake_ble.py 'return super().__exit__()' 'return True'
./tools_mut.py C09 fake_ble.py '        with self:
            super().open_rx_pipe' '        if True:
            super().open_rx_pipe'
./tools_mut.py C09 rf24.py '        self._reg_write(0x03, self._addr_len - 2)
        return self' '        self._reg_write(0x03, self._addr_len - 1)
        return self'
./tools_mut.py C09 rf24.py '        self._reg_write(OPEN_PIPES, self._open_pipes)
        self._reg_write(DYN_PL_LEN, self._dyn_pl)' '        self._reg_write(DYN_PL_LEN, self._dyn_pl)
        self._reg_write(OPEN_PIPES, self._open_pipes)'
