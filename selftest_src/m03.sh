./tools_mut.py C03 rf24.py '& 0xD7 | speed' '& 0xD6 | speed'
./tools_mut.py C03 rf24.py 'max(0, min(int(count), 15))' 'max(0, min(int(count), 16))'
./tools_mut.py C03 rf24.py 'delta = max(250, min(delta, 4000))' 'delta = max(250, min(delta, 4250))'
./tools_mut.py C03 rf24.py 'self._config & 0x73 | length' 'self._config & 0x7F | length'
./tools_mut.py C03 rf24.py 'self._channel = int(channel)' 'pass'
./tools_mut.py C03 rf24.py 'return (3 - ((self._rf_setup & 6) >> 1)) * -6' 'return (3 - ((self._rf_setup & 6) >> 1)) * -6 + 0'
./tools_mut.py C03 rf24.py 'self._reg_write(RX_PL_LENG + pipe_number, self._pl_len[pipe_number])' 'self._reg_write(RX_PL_LENG + pipe_number, length)'
./tools_mut.py C03 rf24.py '        elif 0 <= pipe_number <= 5:
            self._pl_len[pipe_number] = max(1, min(32, length))' '        elif pipe_number <= 5:
            self._pl_len[pipe_number] = max(1, min(32, length))'
./tools_mut.py C03 rf24.py 'self._config = self._reg_read(CONFIGURE) & 0x7D | bool(is_on) << 1' 'self._config = self._reg_read(CONFIGURE) & 0x7C | bool(is_on) << 1'
./tools_mut.py C03 rf24.py 'self._rf_setup = (self._rf_setup & 0xF8) | pwr | lna_bit' 'self._rf_setup = (self._rf_setup & 0xF0) | pwr | lna_bit'
./tools_mut.py C03 rf24.py 'self._features = self._features & 5 | bool(enable) << 1' 'self._features = self._features & 4 | bool(enable) << 1'
./tools_mut.py C03 rf24.py 'if not 0 <= int(channel) <= 125:' 'if not 0 <= int(channel) <= 127:'
./tools_mut.py C03 rf24.py 'self._addr_len = int(length) if 3 <= length <= 5 else 2' 'self._addr_len = int(length) if 3 <= length <= 6 else 2'
./tools_mut.py C03 rf24.py 'self._open_pipes = self._reg_read(OPEN_PIPES) & ~(1 << pipe_number)' 'self._open_pipes = self._open_pipes & ~(1 << pipe_number)'
./tools_mut.py C03 rf24.py 'return self._retry_setup & 0x0F' 'return self._retry_setup & 15'
./tools_mut.py C03 rf24.py '        address = address[:5]  # the address registers are 5 bytes wide
        if pipe_number < 2:' '        if pipe_number < 2:'
