./tools_mut.py C08 rf24.py '                self._pipe0_read_addr is not None
                and self._pipe0_read_addr != self.address(0)' '                self._pipe0_read_addr is not None
                and self._pipe0_read_addr != self._tx_address'
./tools_mut.py C08 rf24.py 'self._open_pipes &= 0x3E  # close_rx_pipe(0) is slower' 'self._open_pipes &= 0x3F  # close_rx_pipe(0) is slower'
./tools_mut.py C08 rf24.py '            elif self._pipe0_read_addr is None and self._open_pipes & 1:
                self._open_pipes &= 0x3E  # close_rx_pipe(0) is slower
                self._reg_write(OPEN_PIPES, self._open_pipes)' ''
./tools_mut.py C08 rf24.py '        self._ce_pin.value = False
        self._config = self._config & 0xFC | (2 + bool(is_rx))
        self._reg_write(CONFIGURE, self._config)' '        self._config = self._config & 0xFC | (2 + bool(is_rx))
        self._reg_write(CONFIGURE, self._config)
        self._ce_pin.value = False'
./tools_mut.py C08 rf24.py '            if self._aa & 1 and not self._open_pipes & 1:
                self._open_pipes |= 1
                self._reg_write(OPEN_PIPES, self._open_pipes)' ''
./tools_mut.py C08 rf24.py '            self._reg_write_bytes(RX_ADDR_P0, address)
        for i, val in enumerate(address):
            self._tx_address[i] = val' '            self._reg_write_bytes(RX_ADDR_P0, address)
            self._pipe0_read_addr = address
        for i, val in enumerate(address):
            self._tx_address[i] = val'
./tools_mut.py C08 rf24.py '        if not pipe_number:
            self._pipe0_read_addr = None' '        if pipe_number == 1:
            self._pipe0_read_addr = None'
./tools_mut.py C08 rf24.py '    def flush_rx(self):
        """Flush all 3 levels of the RX FIFO."""' '    def flush_rx(self):
        """Flush all 3 levels of the RX FIFO."""
        self._ce_pin.value = False'
./tools_mut.py C08 rf24.py 'if self._pipes[0] != address and self._aa & 1:' 'if self._pipe0_read_addr != address and self._aa & 1:'
./tools_mut.py C08 rf24.py 'if self._pipes[0] != address and self._aa & 1:' 'if self._aa & 1:'
