./tools_mut.py C14 network/mixins.py 'self._rf24.auto_ack = 0x3E + (not is_multicast)' 'self._rf24.auto_ack = 0x3F'
./tools_mut.py C14 network/mixins.py '                self.queue.enqueue(self.frame_buf)
                if self.multicast_relay:' '                if self.multicast_relay:'
./tools_mut.py C14 network/mixins.py '(_lvl_2_addr(self._net_lvl) << 3) & 0xFFFF' '(_lvl_2_addr(self._net_lvl) << 2) & 0xFFFF'
./tools_mut.py C14 network/mixins.py '                self.allow_multicast and (pipe_number or not node_addr)
            ):
                result[count]' '                self.allow_multicast and pipe_number
            ):
                result[count]'
./tools_mut.py C14 network/mixins.py 'lvl = min(4, max(lvl, 0))' 'lvl = min(5, max(lvl, 0))'
./tools_mut.py C14 network/mixins.py 'result[count] = self.address_suffix[dec % 8]' 'result[count] = self.address_suffix[node_addr % 8]'
./tools_mut.py C14 network/mixins.py 'is_multicast, conv_to_pipe, conv_to_node = (True, 0, to_node)' 'is_multicast, conv_to_pipe, conv_to_node = (True, 1, to_node)'
./tools_mut.py C14 network/mixins.py '        self.frame_buf.header.from_node = self._addr
        self.frame_buf.message = message
        return self._write(_lvl_2_addr(level), TX_MULTICAST)' '        self.frame_buf.message = message
        return self._write(_lvl_2_addr(level), TX_MULTICAST)'
./tools_mut.py C14 network/mixins.py '                    if self._addr != NETWORK_DEFAULT_ADDR:
                        if self._parenthood:' '                    if True:
                        if self._parenthood:'
./tools_mut.py C14 network/mixins.py 'level_addr = 1 << ((level - 1) * 3)' 'level_addr = 1 << (level * 3)'
