./tools_mut.py C18 fake_ble.py 'return 18 - name_length - self._show_dbm * 3 - len(hypothetical)' 'return 19 - name_length - self._show_dbm * 3 - len(hypothetical)'
./tools_mut.py C18 fake_ble.py 'pl_size = 9 + len(payload) + name_length + self._show_dbm * 3' 'pl_size = 10 + len(payload) + name_length + self._show_dbm * 3'
./tools_mut.py C18 fake_ble.py 'buf = bytes([0x42, pl_size]) + self.mac' 'buf = bytes([0x40, pl_size]) + self.mac'
./tools_mut.py C18 fake_ble.py 'pa_level = chunk(struct.pack(">b", self.pa_level), 0x0A)' 'pa_level = chunk(struct.pack(">b", self.pa_level), 0x09)'
./tools_mut.py C18 fake_ble.py 'payload = self.whiten(self._make_payload(payload))
        # print("original: 0x{}".format(address_repr(payload)))
        # print("reversed: 0x{}".format(address_repr(reverse_bits(payload))))
        self.send(reverse_bits(payload))' 'payload = reverse_bits(self._make_payload(payload))
        self.send(self.whiten(payload))'
./tools_mut.py C18 fake_ble.py 'coef = (self._curr_freq + 37) | 0x40' 'coef = (self._curr_freq + 36) | 0x40'
./tools_mut.py C18 fake_ble.py 'self._curr_freq += 1 if self._curr_freq < 2 else -2' 'self._curr_freq += 1 if self._curr_freq < 1 else -1'
./tools_mut.py C18 fake_ble.py '        if self.len_available(payload) < 0:' '        if self.len_available(payload) < -1:'
./tools_mut.py C18 fake_ble.py '        buf += pa_level
        if name_length and self._ble_name is not None:
            buf += chunk(self._ble_name, 0x08)' '        if name_length and self._ble_name is not None:
            buf += chunk(self._ble_name, 0x08)
        buf += pa_level'
./tools_mut.py C18 fake_ble.py 'BLE_FREQ = (2, 26, 80)' 'BLE_FREQ = (2, 26, 81)'
./tools_mut.py C18 fake_ble.py '            self._curr_freq = BLE_FREQ.index(value)
' ''
./tools_mut.py C18 fake_ble.py 'return bytearray([len(buf) + 1, data_type & 0xFF]) + buf' 'return bytearray([len(buf), data_type & 0xFF]) + buf'
./tools_mut.py C18 fake_ble.py 'deg_poly: int = 0x65B' 'deg_poly: int = 0x65D'
./tools_mut.py C18 fake_ble.py '            self._mac += urandom(6 - len(self._mac))' '            self._mac += urandom(5 - len(self._mac))'
./tools_mut.py C18 fake_ble.py '        payload = b""
        if isinstance(buf, (list, tuple)):
            for byte in buf:' '        if isinstance(buf, (list, tuple)):
            payload = buf[0] if buf else b""
            for byte in buf[1:]:'
./tools_mut.py C18 fake_ble.py '        payload = b""
        if isinstance(buf, (list, tuple)):
            for byte in buf:
                payload += byte' '        payload = b""
        if isinstance(buf, (list, tuple)):
            payload = b"".join(buf)'
