./tools_mut.py C16 rf24_mesh.py 'for i in range(MESH_MAX_CHILDREN + extra_child, 0, -1):' 'for i in range(MESH_MAX_CHILDREN + extra_child, -1, -1):'
./tools_mut.py C16 rf24_mesh.py '                shift_val += 3' '                shift_val += 2'
./tools_mut.py C16 rf24_mesh.py 'if addr == new_addr and n_id != self.frame_buf.header.reserved:' 'if addr == new_addr:'
./tools_mut.py C16 rf24_mesh.py '            if new_addr == NETWORK_DEFAULT_ADDR:
                continue
' ''
./tools_mut.py C16 rf24_mesh.py '                    json_file.write(struct.pack("<H", _addr))' '                    json_file.write(struct.pack("<h", _addr))'
./tools_mut.py C16 rf24_mesh.py '                    index = i * 4' '                    index = i * 3'
./tools_mut.py C16 rf24_mesh.py 'if msg_t == MESH_ADDR_REQUEST and self.frame_buf.header.reserved:' 'if msg_t == MESH_ADDR_REQUEST:'
./tools_mut.py C16 rf24_mesh.py '                self.frame_buf.header.to_node = self.frame_buf.header.from_node
                self.frame_buf.message = struct.pack("<H", new_addr)' '                self.frame_buf.message = struct.pack("<H", new_addr)'
./tools_mut.py C16 rf24_mesh.py '            if addr == address:
                del self.dhcp_dict[id]
                return True' '            if addr == address:
                del self.dhcp_dict[id]'
./tools_mut.py C16 rf24_mesh.py '                self.set_address(self.frame_buf.header.reserved, new_addr)
' '                self.set_address(self.frame_buf.header.reserved, new_addr, True)
'
./tools_mut.py C16 rf24_mesh.py '                    found_addr = True
                    break' '                    found_addr = True
                    continue'
./tools_mut.py C16 rf24_mesh.py 'self.release_address(self.frame_buf.header.from_node)' 'self.release_address(self.frame_buf.header.to_node)'
./tools_mut.py C16 rf24_mesh.py 'struct.unpack("<H", buffer[index + 2 : index + 4])[0]' 'struct.unpack("<H", buffer[index + 1 : index + 3])[0]'
./tools_mut.py C16 rf24_mesh.py '            if not search_by_address:
                if n_id == node_id:' '            if not search_by_address or n_id == node_id:
                if n_id == node_id:'
./tools_mut.py C16 rf24_mesh.py '        self.dhcp_dict[node_id] = node_address

    def save_dhcp' '        self.dhcp_dict.setdefault(node_id, node_address)

    def save_dhcp'
./tools_mut.py C16 rf24_mesh.py '        self.dhcp_dict[node_id] = node_address

    def save_dhcp' '        self.dhcp_dict.update({node_id: node_address})

    def save_dhcp'
