./tools_mut.py C02 rf24.py 'while not self._in[0] & 0x30:
            up_cnt += self.update()
        result = bool(self._in[0] & 0x20)  # type' 'while not self._in[0] & 0x20:
            up_cnt += self.update()
        result = bool(self._in[0] & 0x20)  # type'
./tools_mut.py C02 rf24.py 'result = bool(self._in[0] & 0x20)  # type: ignore[assignment]' 'result = bool(self._in[0] & 0x10)  # type: ignore[assignment]'
./tools_mut.py C02 rf24.py 'if self._in[0] & 0x10 or self._in[0] & 1:
            self.flush_tx()' 'if self._in[0] & 1:
            self.flush_tx()'
./tools_mut.py C02 rf24.py '            force_retry -= 1
' ''
./tools_mut.py C02 rf24.py 'if result is True and self._in[0] & 0x60 == 0x60 and not send_only:' 'if result is True and self._in[0] & 0x60 == 0x60:'
./tools_mut.py C02 rf24.py '        if self.fifo(True, True):
            return False
' ''
./tools_mut.py C02 rf24.py 'self.clear_status_flags()
        self.update()  # the' 'self.update()  # the'
./tools_mut.py C02 rf24.py 'result = self.resend(send_only)' 'result = self.resend()'
./tools_mut.py C02 rf24.py 'if not send_only and self._in[0] >> 1 & 7 < 6:
            self.flush_rx()
        up_cnt = 0' 'if self._in[0] >> 1 & 7 < 6:
            self.flush_rx()
        up_cnt = 0'
./tools_mut.py C02 rf24.py 'while not self._in[0] & 0x30:
            up_cnt += self.update()
        result = bool(self._in[0] & 0x20)  # type' 'while not self._in[0] & (0x20 | 0x10):
            self.update()
        result = bool(self._in[0] & 0x20)  # type'
./tools_mut.py C02 rf24.py 'if self.fifo(True, True):' 'if self.fifo(False, True):'
./tools_mut.py C02 rf24.py '        self.update()  # the STATUS byte clocked out above predates the clearing
' ''
./tools_mut.py C02 rf24.py '        if not send_only and self._in[0] >> 1 & 7 < 6:
            self.flush_rx()
        self.clear_status_flags()' '        if not send_only and self._in[0] >> 1 < 6:
            self.flush_rx()
        self.clear_status_flags()'
