./tools_mut.py C17 rf24_mesh.py '        if self._addr == NETWORK_DEFAULT_ADDR:
            return -2
        return self._lookup_2_master(node_id, MESH_ADDR_LOOKUP)' '        if self._addr == NETWORK_DEFAULT_ADDR:
            return -1
        return self._lookup_2_master(node_id, MESH_ADDR_LOOKUP)'
./tools_mut.py C17 rf24_mesh.py '        if not self._write(0, TX_NORMAL):
            return -1
        timeout = MESH_LOOKUP_TIMEOUT' '        if not self._write(0, TX_NORMAL):
            return -2
        timeout = MESH_LOOKUP_TIMEOUT'
./tools_mut.py C17 rf24_mesh.py '        return struct.unpack("<h", self.frame_buf.message[:2])[0]' '        return struct.unpack("<H", self.frame_buf.message[:2])[0]'
./tools_mut.py C17 rf24_mesh.py '            if lookup_type == MESH_ADDR_LOOKUP and n_id == number:
                return addr' '            if lookup_type == MESH_ADDR_LOOKUP and n_id == number:
                return n_id'
./tools_mut.py C17 rf24_mesh.py '                return addr
        return -2' '                return addr
        return -1'
./tools_mut.py C17 rf24_mesh.py '            if time.monotonic_ns() > timeout:
                return -1
        if len' '            if time.monotonic_ns() > timeout:
                return 0
        if len'
./tools_mut.py C17 rf24_mesh.py '            self.frame_buf.message = struct.pack("<H", number)' '            self.frame_buf.message = struct.pack(">H", number)'
./tools_mut.py C17 rf24_mesh.py '            if self._write(0, TX_NORMAL):
                super()._begin(NETWORK_DEFAULT_ADDR)
                return True' '            if self._write(0, TX_NORMAL):
                return True'
./tools_mut.py C17 rf24_mesh.py '        if not address:
            return self._id if address is None else 0
        if self._addr == NETWORK_DEFAULT_ADDR:
            return -2
        return self._lookup_2_master(address, MESH_ID_LOOKUP)' '        if not address:
            return 0
        if self._addr == NETWORK_DEFAULT_ADDR:
            return -2
        return self._lookup_2_master(address, MESH_ID_LOOKUP)'
./tools_mut.py C17 rf24_mesh.py '            if time.monotonic() > end_timer:
                return None' '            if time.monotonic() > end_timer:
                return self._addr'
./tools_mut.py C17 rf24_mesh.py '                if time.monotonic_ns() >= timeout:
                    return False' '                if time.monotonic_ns() >= timeout:
                    break'
./tools_mut.py C17 rf24_mesh.py '                self.frame_buf.header.to_node = self.frame_buf.header.from_node

                ret_val = 0' '                ret_val = 0'
