./tools_mut.py C15 network/structs.py '        if len(buffer) < 8:
            return False' ''
./tools_mut.py C15 network/mixins.py '                or not is_address_valid(self.frame_buf.header.to_node)
' ''
./tools_mut.py C15 network/structs.py 'if (not 0 < (address & 7) <= 5) or (byte_count > 3):' 'if (not 0 < (address & 7) <= 6) or (byte_count > 3):'
./tools_mut.py C15 network/structs.py 'if (not 0 < (address & 7) <= 5) or (byte_count > 3):' 'if (not 0 < (address & 7) <= 5) or (byte_count > 4):'
./tools_mut.py C15 network/mixins.py '        if msg_t == NETWORK_PING:
            return (True, msg_t)' '        if msg_t == NETWORK_PING:
            return (True, self.frame_buf.message[1])'
./tools_mut.py C15 rf24_mesh.py ') >= (1 if msg_t == MESH_ADDR_LOOKUP else 2):' ') >= (1 if msg_t == MESH_ADDR_LOOKUP else 1):'
./tools_mut.py C15 rf24_mesh.py 'self.frame_buf.message = struct.pack("<h", ret_val)' 'self.frame_buf.message = struct.pack("<B", ret_val)'
./tools_mut.py C15 network/mixins.py '            temp_buf = self._rf24.read()
            if temp_buf is None:
                return ret_val' '            temp_buf = self._rf24.read()
            if temp_buf is None and ret_val:
                return ret_val'
./tools_mut.py C15 network/structs.py '        address >>= 3
        byte_count += 1' '        address >>= 2
        byte_count += 1'
./tools_mut.py C15 network/structs.py 'NETWORK_MULTICAST_ADDR_LVL_4,
    ):
        return True' 'NETWORK_MULTICAST_ADDR_LVL_4,
        0o7,
    ):
        return True'
